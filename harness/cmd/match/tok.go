// Stream `tok`: the token events of the real oj.Tokenizer (Load under a recorded chunking, Parse on a
// byte slice) against the Lean model `tokEvents` (lean/OjgVerif/Match/Tokenizer.lean, driver op
// `tok`): every handler call in order with its argument — also the calls made before an error — and
// whether the call ended in an error. This ties the emission function of the model (which action
// fires which handler call, with what) and the Go fast paths (string scan, literal compare, digit
// loops) to the code; chunk independence of the event sequence and "events = events of the parsed
// value" are theorems about the model (Props/C17Chunks.lean).
package main

import (
	"encoding/json"
	"fmt"
	"io"
	"strings"

	"github.com/ohler55/ojg/oj"

	"verif/harness/lib"
)

type tokRec struct{ items []string }

func (h *tokRec) Null()        { h.items = append(h.items, "Ln") }
func (h *tokRec) Bool(v bool)  { h.items = append(h.items, "L"+lib.Render(v)) }
func (h *tokRec) Int(v int64)  { h.items = append(h.items, "L"+lib.Render(v)) }
func (h *tokRec) Float(v float64) {
	h.items = append(h.items, "L"+lib.Render(v))
}
func (h *tokRec) Number(v string) { h.items = append(h.items, "L"+lib.Render(json.Number(v))) }
func (h *tokRec) String(v string) { h.items = append(h.items, "L"+lib.Render(v)) }
func (h *tokRec) ObjectStart()    { h.items = append(h.items, "{") }
func (h *tokRec) ObjectEnd()      { h.items = append(h.items, "}") }
func (h *tokRec) Key(k string)    { h.items = append(h.items, "K("+lib.HexF([]byte(k))+")") }
func (h *tokRec) ArrayStart()     { h.items = append(h.items, "[") }
func (h *tokRec) ArrayEnd()       { h.items = append(h.items, "]") }

// listReader hands out the given chunks one Read each (an empty chunk is a Read of 0 bytes) and
// records what each Read really delivered (a chunk longer than the buffer is cut by the buffer).
type listReader struct {
	chunks  [][]byte
	eofWith bool // deliver the last bytes together with io.EOF
	reads   [][]byte
}

func (r *listReader) Read(p []byte) (int, error) {
	if len(r.chunks) == 0 {
		return 0, io.EOF
	}
	c := r.chunks[0]
	n := copy(p, c)
	if n < len(c) {
		r.chunks[0] = c[n:]
	} else {
		r.chunks = r.chunks[1:]
	}
	r.reads = append(r.reads, append([]byte{}, p[:n]...))
	if len(r.chunks) == 0 && r.eofWith {
		return n, io.EOF
	}
	return n, nil
}

func tokResult(h *tokRec, err error) string {
	ev := "-"
	if len(h.items) > 0 {
		ev = strings.Join(h.items, " ")
	}
	if err != nil {
		return ev + "|err"
	}
	return ev + "|ok"
}

func tokLoad(chunks [][]byte, eofWith bool) (res string, reads [][]byte) {
	h := &tokRec{}
	r := &listReader{chunks: chunks, eofWith: eofWith}
	defer func() {
		if p := recover(); p != nil {
			res, reads = fmt.Sprintf("panic %v", p), r.reads
		}
	}()
	t := oj.Tokenizer{}
	err := t.Load(r, h)
	return tokResult(h, err), r.reads
}

func tokParse(text []byte) (res string) {
	h := &tokRec{}
	defer func() {
		if p := recover(); p != nil {
			res = fmt.Sprintf("panic %v", p)
		}
	}()
	t := oj.Tokenizer{}
	err := t.Parse(text, h)
	return tokResult(h, err)
}

func bytesOf(cs [][]byte) []byte {
	var out []byte
	for _, c := range cs {
		out = append(out, c...)
	}
	return out
}

// emptyFirstReadBom: the predicate of known finding C17-empty-first-read-bom on the reads the reader delivers
// (leading empty reads, then bytes that start with a byte order mark and go on)
func emptyFirstReadBom(reads [][]byte) bool {
	if len(reads) < 2 || len(reads[0]) != 0 {
		return false
	}
	rest := bytesOf(reads)
	return len(rest) > 3 && rest[0] == 0xEF && rest[1] == 0xBB && rest[2] == 0xBF
}

func chunksArg(cs [][]byte) string {
	if len(cs) == 0 {
		return "_"
	}
	parts := make([]string, len(cs))
	for i, c := range cs {
		parts[i] = lib.HexF(c)
	}
	return strings.Join(parts, ",")
}

// modelTok: "<events>|ok <n>" -> "<events>|ok", floats of the model (decimal text) to bits
func modelTok(a string) string {
	i := strings.LastIndex(a, "|")
	if i < 0 {
		return a
	}
	out := a[i+1:]
	if strings.HasPrefix(out, "ok") {
		out = "ok"
	}
	return lib.FloatTextToBits(a[:i]) + "|" + out
}

func splitAt(text []byte, cuts []int) [][]byte {
	var out [][]byte
	prev := 0
	for _, c := range cuts {
		if c < prev {
			c = prev
		}
		if c > len(text) {
			c = len(text)
		}
		out = append(out, text[prev:c])
		prev = c
	}
	return append(out, text[prev:])
}

var tokFixed = []string{
	``, ` `, `1`, `-0`, `0.5`, `1e5`, `1E+05`, `12.50e-3`, `-1.0E0`, `9223372036854775807`, `9223372036854775808`,
	`-9223372036854775808`, `922337203685477580`, `12345678901234567890123`, `1.2345678901234567890123`, `1e400`, `1e1023`,
	`0.000000000000000000001`, `1.0000000000000000001`, `123456789012345678.5`,
	`null`, `true`, `false`, `nul`, `tru`, `falsx`, `nulll`, `truefalse`, `"a"`, `"a\nbé😀\\\"/"`, `"\u12"`, `"\x"`,
	`"abc`, `"a` + "\x01" + `"`, `[]`, `{}`, `[1,2,3]`, `[1 ,2 , 3 ]`, "[1\n,2\n]", `{"a":1}`, `{"a":1,"a":2}`, `{"a":{"b":[1,{"c":null}]},"d":"x"}`,
	`[1,]`, `[,1]`, `{"a"}`, `{"a":}`, `{"a":1,}`, `{1:2}`, `[1}`, `{"a":1]`, `]`, `}`, `1,2`, `1 2`, `[1][2]`, "{}\n{}", `1 x`, `[1] x`,
	`[[[[[[[[[[1]]]]]]]]]]`, `[1.5,2.5e3,-3]`, `{"a":1.5}`, `{"a":1.5 }`, "{\"a\":1.5\n}", `[true,false,null]`, `[tru]`, `{"":""}`,
	"\xef\xbb\xbf[1]", "\xef\xbb\xbf", "\xef\xbb", "\xef", "\xef\xbb\xbf1", "\xef\xbb\xbe[1]", "\xefabc", "\xef\xbb\xbf\xef\xbb\xbf1",
}

// tokCases runs the stream; the driver is required (without one the stream is skipped).
func tokCases(d *lib.Driver, full bool, r *lib.Rng) error {
	if d == nil {
		return nil
	}
	type tc struct {
		reader bool
		eof    bool
		chunks [][]byte
		impl   string
		whole  string // the handler calls of the same bytes read in one piece ("" for Parse)
		orig   [][]byte // the reads the reader was going to deliver (the run stops reading at an error)
	}
	var reqs []string
	var all []tc
	flush := func() error {
		ans, err := d.Ask(reqs)
		if err != nil {
			return err
		}
		for i, a := range ans {
			m := modelTok(a)
			// the property's clause on this level: a chunking must give what the whole read gives
			if w := all[i].whole; w != "" && w != all[i].impl {
				info := map[string]any{"tok_reader": true, "tok_eof_with_data": all[i].eof, "tok_chunks": chunksArg(all[i].chunks), "tok_all_reads": chunksArg(all[i].orig), "impl": all[i].impl, "whole": w, "model": m}
				if emptyFirstReadBom(all[i].orig) && m == all[i].impl && lib.HasKnown(knownList, "C17-empty-first-read-bom") {
					rep.Add(lib.Finding{Kind: "known", Class: "tok:empty-first-read-bom", KnownID: "C17-empty-first-read-bom",
						What: "an empty first Read switches the byte-order-mark handling of Tokenizer.Load off (events differ from the whole read and equal the model's, which carries the deviation)", Replay: info})
				} else {
					add("violation", "tok:chunk-dependent-events", "the handler calls of oj.Tokenizer.Load under this chunking differ from those of the same bytes read in one piece", info)
				}
			}
			if m != all[i].impl {
				entry := "oj.Tokenizer.Parse"
				if all[i].reader {
					entry = "oj.Tokenizer.Load"
				}
				add("disagreement", "model:tokenizer-events", "token events of "+entry+" differ from the Lean tokenizer model (tokEvents)",
					map[string]any{"tok_reader": all[i].reader, "tok_eof_with_data": all[i].eof, "tok_chunks": chunksArg(all[i].chunks), "impl": all[i].impl, "model": m})
			}
		}
		rep.Count("stream.tok", int64(len(ans)))
		rep.AddEval(int64(len(ans)), int64(len(ans)))
		reqs, all = reqs[:0], all[:0]
		return nil
	}
	one := func(reader, eof bool, chunks [][]byte) error {
		var impl, whole string
		var given [][]byte
		if reader {
			impl, given = tokLoad(append([][]byte{}, chunks...), eof)
			if len(chunks) > 1 { // the same bytes in one read (an error stops both at the same byte)
				whole, _ = tokLoad([][]byte{bytesOf(chunks)}, false)
			}
		} else {
			impl, given = tokParse(chunks[0]), chunks[:1]
		}
		rd := "0"
		if reader {
			rd = "1"
		}
		all = append(all, tc{reader, eof, given, impl, whole, chunks})
		reqs = append(reqs, "tok\t"+rd+"\t"+chunksArg(given))
		if len(reqs) >= 1024 {
			return flush()
		}
		return nil
	}
	text := func(t []byte, splits int) error {
		if err := one(false, false, [][]byte{t}); err != nil {
			return err
		}
		if err := one(true, false, [][]byte{t}); err != nil {
			return err
		}
		if err := one(true, true, [][]byte{t}); err != nil {
			return err
		}
		// byte by byte
		var bb [][]byte
		for i := range t {
			bb = append(bb, t[i:i+1])
		}
		if len(t) > 0 {
			if err := one(true, false, bb); err != nil {
				return err
			}
		}
		if len(t) <= 14 { // every 2-chunk split
			for c := 1; c < len(t); c++ {
				if err := one(true, false, splitAt(t, []int{c})); err != nil {
					return err
				}
			}
		}
		for k := 0; k < splits && len(t) > 1; k++ {
			n := 1 + r.Intn(4)
			cuts := make([]int, n)
			prev := 0
			for i := range cuts {
				prev += r.Intn(len(t) - prev + 1)
				cuts[i] = prev
			}
			cs := splitAt(t, cuts) // may hold empty reads
			if err := one(true, r.Intn(4) == 0, cs); err != nil {
				return err
			}
		}
		return nil
	}
	for _, s := range tokFixed {
		if err := text([]byte(s), 3); err != nil {
			return err
		}
	}
	// finding C17-empty-first-read-bom (fixed, c109a1a): the chunking stays as a regression case
	if err := one(true, false, [][]byte{{}, []byte("\xef\xbb\xbf[1]")}); err != nil {
		return err
	}
	rep.Exhaustive = append(rep.Exhaustive, "tokenizer events vs model: every 2-chunk split of the fixed texts of at most 14 bytes")
	n := 150
	if full {
		n = 4000
	}
	for i := 0; i < n; i++ {
		doc := randDoc(r, 1+r.Intn(4), 1+r.Intn(4), true)
		var ws *lib.Rng
		if r.Bool() {
			ws = r.Fork(i)
		}
		t := []byte(doc.json(ws))
		if len(t) > 3000 {
			continue
		}
		switch r.Intn(6) {
		case 0: // truncated
			t = t[:r.Intn(len(t)+1)]
		case 1: // one byte replaced
			if len(t) > 0 {
				t = append([]byte{}, t...)
				repl := "{}[],:\"\\ x0-.e\n\x00\xef"
				t[r.Intn(len(t))] = repl[r.Intn(len(repl))]
			}
		case 2: // behind a byte order mark
			t = append([]byte("\xef\xbb\xbf"), t...)
		case 3: // a second document
			t = append(append(append([]byte{}, t...), ' '), []byte(randDoc(r, 1, 2, false).json(nil))...)
		}
		if err := text(t, 2); err != nil {
			return err
		}
	}
	// a long text over the 4096-byte read buffer
	{
		var sb strings.Builder
		sb.WriteString("[")
		for i := 0; i < 900; i++ {
			if i > 0 {
				sb.WriteString(",")
			}
			fmt.Fprintf(&sb, `{"k%d":[%d,"s%d",%d.5,true]}`, i, i*7919, i, i)
		}
		sb.WriteString("]")
		long := []byte(sb.String())
		if err := one(true, false, [][]byte{long}); err != nil {
			return err
		}
		if err := one(false, false, [][]byte{long}); err != nil {
			return err
		}
		if err := one(true, false, splitAt(long, []int{4095, 4097, 9000})); err != nil {
			return err
		}
	}
	return flush()
}
