package main

import (
	"fmt"
	"math"
	"os"
	"strings"

	"verif/harness/lib"
)

func iT(i int64) *T    { return &T{K: KInt, I: i} }
func fT(f float64) *T  { return &T{K: KFlt, F: f} }
func sT(s string) *T   { return &T{K: KStr, S: s} }
func nT() *T           { return &T{K: KNull} }
func bT(b bool) *T     { return &T{K: KBool, B: b} }
func aT(kids ...*T) *T { return &T{K: KArr, Kids: kids} }
func oT(kv ...any) *T { // oT("a", x, "b", y)
	t := &T{K: KObj}
	for i := 0; i+1 < len(kv); i += 2 {
		t.Keys = append(t.Keys, kv[i].(string))
		t.Kids = append(t.Kids, kv[i+1].(*T))
	}
	return t
}

// corpusCases replays the minimised past failures and the witnesses of the known findings.
func corpusCases(emit func(*Case)) {
	if *corpus == "" {
		return
	}
	data, err := os.ReadFile(*corpus)
	if err != nil {
		return
	}
	for ln, line := range strings.Split(string(data), "\n") {
		line = strings.TrimSpace(line)
		if line == "" || strings.HasPrefix(line, "#") {
			continue
		}
		f := strings.Fields(line)
		if len(f) < 3 {
			rep.Notes = append(rep.Notes, fmt.Sprintf("corpus line %d skipped: want '<v0> <v1> <ignores>'", ln+1))
			continue
		}
		a, e1 := parseTree(f[0])
		b, e2 := parseTree(f[1])
		ign, e3 := parsePaths(f[2])
		if e1 != nil || e2 != nil || e3 != nil {
			rep.Notes = append(rep.Notes, fmt.Sprintf("corpus line %d skipped: %v %v %v", ln+1, e1, e2, e3))
			continue
		}
		emit(&Case{A: a, B: b, Ign: ign, Stream: "corpus"})
	}
}

// boundaryCases: the families the property names (numeric width, null versus absent, lengths) and
// the ones the ignore-path code is sensitive to.
func boundaryCases(emit func(*Case)) {
	// 1. numbers around 2^53 and the int64 limits against each other, at the root and nested
	var nums []*T
	for _, i := range bigInts {
		nums = append(nums, iT(i))
	}
	for _, f := range bigFlts {
		nums = append(nums, fT(f))
	}
	for _, i := range []int64{0, 1, -1, 3} {
		nums = append(nums, iT(i), fT(float64(i)))
	}
	nums = append(nums, fT(1.5), fT(-0.25), nT(), sT("1"), bT(true), &T{K: KBig, S: "1"}, aT(), oT())
	for _, x := range nums {
		for _, y := range nums {
			emit(&Case{A: x, B: y, Stream: "boundary.number"})
			emit(&Case{A: aT(x), B: aT(y), Stream: "boundary.number"})
			emit(&Case{A: oT("a", x), B: oT("a", y), Stream: "boundary.number"})
		}
	}
	// 1b. the top half of uint64 (values no int64 holds) against the int64 with the same bits, the
	// floats around 2^63 and 2^64, and each other; smaller unsigned values come out as uint/uint64
	// through the random choice of kinds (several seeds per pair)
	us := []*T{uT(1<<63 - 1), uT(1 << 63), uT(1<<63 + 1), uT(1<<63 + 2048), uT(1<<63 + 1<<62), uT(math.MaxUint64 - 2047), uT(math.MaxUint64 - 1), uT(math.MaxUint64),
		uT(0), uT(255), uT(1 << 53), uT(1<<53 + 1)}
	others := append([]*T{}, us...)
	for _, i := range []int64{math.MinInt64, math.MinInt64 + 1, math.MinInt64 + 2048, -(1 << 62), -2048, -2, -1, 0, 255, math.MaxInt64, math.MaxInt64 - 1, 1 << 53, 1<<53 + 1} {
		others = append(others, iT(i))
	}
	for _, f := range []float64{1 << 63, -(1 << 63), 1<<63 + 2048, 1<<63 - 1024, 1<<63 + 1<<62, 18446744073709549568, 1 << 64, 1<<64 + 4096, -1, -2048, 0, 255, 1 << 53, 0.5, -(1 << 62)} {
		others = append(others, fT(f))
	}
	others = append(others, nT(), sT("9223372036854775808"), &T{K: KBig, S: "9223372036854775808"})
	for _, x := range us {
		for _, y := range others {
			for k := uint64(0); k < 4; k++ {
				ws, tag := 0x9E37*(k+1)+uint64(len(x.intText())), fmt.Sprint("kinds", k)
				emit(&Case{A: x, B: y, Stream: "boundary.uint64", WSeed: ws, Tag: tag})
				emit(&Case{A: y, B: x, Stream: "boundary.uint64", WSeed: ws, Tag: tag})
				emit(&Case{A: aT(x, x), B: aT(y, x), Stream: "boundary.uint64", WSeed: ws, Tag: tag})
				emit(&Case{A: oT("a", y), B: oT("a", x, "b", nT()), Stream: "boundary.uint64", WSeed: ws, Tag: tag})
			}
		}
	}
	// 2. null versus absent
	vals := []*T{nil, nT(), iT(1), aT(), oT(), aT(nT()), oT("a", nT())}
	mk := func(v, w *T) *T {
		t := &T{K: KObj}
		if v != nil {
			t.Keys, t.Kids = append(t.Keys, "a"), append(t.Kids, v)
		}
		if w != nil {
			t.Keys, t.Kids = append(t.Keys, "b"), append(t.Kids, w)
		}
		return t
	}
	var objs []*T
	for _, v := range vals {
		for _, w := range vals {
			objs = append(objs, mk(v, w))
		}
	}
	for _, x := range objs {
		for _, y := range objs {
			emit(&Case{A: x, B: y, Stream: "boundary.null-absent"})
		}
	}
	for _, ign := range [][]Path{{{kf("a")}}, {{wf}}, {{kf("a"), kf("a")}}, {{wf, wf}}, {{kf("b"), xf(0)}}} {
		for _, x := range objs {
			for _, y := range objs {
				emit(&Case{A: x, B: y, Ign: ign, Stream: "boundary.null-absent"})
			}
		}
	}
	// 3. lengths against single-index ignore paths
	var arrs []*T
	for l := 0; l <= 4; l++ {
		a := &T{K: KArr}
		for i := 0; i < l; i++ {
			a.Kids = append(a.Kids, iT(int64(i)))
		}
		arrs = append(arrs, a)
		if l > 0 {
			b := a.clone()
			b.Kids[l-1] = iT(9)
			arrs = append(arrs, b)
			c := a.clone()
			c.Kids[0] = nT()
			arrs = append(arrs, c)
		}
	}
	var idxPaths []Path
	for i := -1; i <= 5; i++ {
		idxPaths = append(idxPaths, Path{xf(i)})
	}
	idxPaths = append(idxPaths, Path{wf}, Path{}, Path{kf("a")}, Path{xf(1), xf(0)})
	for _, ign := range setsUpTo(idxPaths, 2) {
		for _, x := range arrs {
			for _, y := range arrs {
				emit(&Case{A: x, B: y, Ign: ign, Stream: "boundary.length-ignore"})
				emit(&Case{A: oT("a", x), B: oT("a", y), Ign: prefixAll(kf("a"), ign), Stream: "boundary.length-ignore"})
			}
		}
	}
	// 4. arrays of objects against one or two two-fragment ignore paths
	var two []Path
	for _, h := range []Frag{xf(0), xf(1), xf(2), xf(-1), xf(3), wf} {
		for _, t := range []Frag{kf("a"), kf("b"), wf} {
			two = append(two, Path{h, t})
		}
	}
	base := aT(oT("a", iT(1), "b", iT(2)), oT("a", iT(3), "b", iT(4)), oT("a", iT(5), "b", iT(6)))
	for m := 0; m < 64; m++ {
		y := base.clone()
		for bit := 0; bit < 6; bit++ {
			if m&(1<<bit) != 0 {
				y.Kids[bit/2].Kids[bit%2] = iT(9)
			}
		}
		for _, ign := range setsUpTo(two, 2) {
			emit(&Case{A: base, B: y, Ign: ign, Stream: "boundary.indexed-ignore"})
		}
	}
	for m := 1; m < 64; m += 7 {
		y := base.clone()
		for bit := 0; bit < 6; bit++ {
			if m&(1<<bit) != 0 {
				y.Kids[bit/2].Kids[bit%2] = iT(9)
			}
		}
		for _, ign := range setsUpTo(two, 3) {
			if len(ign) == 3 {
				emit(&Case{A: oT("x", base), B: oT("x", y), Ign: prefixAll(kf("x"), ign), Stream: "boundary.indexed-ignore"})
			}
		}
	}
}

func prefixAll(f Frag, ign []Path) []Path {
	out := make([]Path, len(ign))
	for i, p := range ign {
		out[i] = append(Path{f}, p...)
	}
	return out
}

// boxCases: every ordered pair of the trees of a small universe.
func boxCases(full bool, r *lib.Rng, emit func(*Case)) {
	// box 1: depth <= 1, six atoms, with every ignore set of at most two one-fragment paths
	atoms6 := []*T{nT(), bT(true), iT(1), fT(1), iT(2), sT("a")}
	u1 := universe(atoms6, []string{"a", "b"}, 2, 1)
	one := []Path{{wf}, {xf(0)}, {xf(1)}, {xf(2)}, {kf("a")}, {kf("b")}}
	sets1 := setsUpTo(one, 2)
	for _, ign := range sets1 {
		for _, x := range u1 {
			for _, y := range u1 {
				emit(&Case{A: x, B: y, Ign: ign, Stream: "box.depth1"})
			}
		}
	}
	rep.Exhaustive = append(rep.Exhaustive, fmt.Sprintf("all ordered pairs of the %d trees of depth <= 1 (arrays of length <= 2, objects over {a,b}, atoms null true 1 1.0 2 \"a\") x all %d sets of <= 2 one-fragment ignore paths over {nil,0,1,2,a,b}", len(u1), len(sets1)))
	// box 2: depth <= 2, two atoms, no ignore path
	keys2 := []string{"a"}
	if full {
		keys2 = []string{"a", "b"}
	}
	u2 := universe([]*T{nT(), iT(1)}, keys2, 2, 2)
	for _, x := range u2 {
		for _, y := range u2 {
			emit(&Case{A: x, B: y, Stream: "box.depth2"})
		}
	}
	rep.Exhaustive = append(rep.Exhaustive, fmt.Sprintf("all ordered pairs of the %d trees of depth <= 2 (arrays of length <= 2, objects over %v, atoms null 1), no ignore path", len(u2), keys2))
	// box 3: arrays (length <= 2) of objects over {a,b} with values 1, 2, against ignore sets of paths of length <= 2
	objs := universe([]*T{iT(1), iT(2)}, []string{"a", "b"}, 0, 1)
	var objOnly []*T
	for _, o := range objs {
		if o.K == KObj {
			objOnly = append(objOnly, o)
		}
	}
	var u3 []*T
	u3 = append(u3, aT())
	for _, x := range objOnly {
		u3 = append(u3, aT(x))
		for _, y := range objOnly {
			u3 = append(u3, aT(x, y))
		}
	}
	paths2 := pathsOver([]Frag{wf, xf(0), xf(1), kf("a"), kf("b")}, 2)
	sets3 := setsUpTo(paths2, 1)
	for _, ign := range sets3 {
		for _, x := range u3 {
			for _, y := range u3 {
				if !full && r.Intn(4) != 0 {
					continue
				}
				emit(&Case{A: x, B: y, Ign: ign, Stream: "box.arrays-of-objects"})
			}
		}
	}
	if full {
		rep.Exhaustive = append(rep.Exhaustive, fmt.Sprintf("all ordered pairs of the %d arrays (length <= 2) of objects over {a,b} with values 1, 2 x the %d ignore sets of at most one path of length <= 2 over {nil,0,1,a,b}", len(u3), len(sets3)))
	}
	// pairs of ignore paths: sampled
	sets3b := setsUpTo(paths2, 2)
	n := 60000
	if full {
		n = 1000000
	}
	for i := 0; i < n; i++ {
		emit(&Case{A: lib.Pick(r, u3), B: lib.Pick(r, u3), Ign: sets3b[r.Intn(len(sets3b))], Stream: "box.arrays-of-objects-sampled"})
	}
}

// randomCases: one random tree, perturbed at k places; both directions; ignore sets derived from it.
func randomCases(full bool, r *lib.Rng, emit func(*Case)) {
	g := &treeGen{r: r}
	n := 70000
	if full {
		n = 1000000
	}
	for i := 0; i < n; i++ {
		a := g.tree(2 + r.Intn(3))
		k := []int{0, 1, 1, 1, 2, 2, 3, 4}[r.Intn(8)]
		b, exp := g.perturb(a, k)
		for j := 0; j < 2; j++ {
			ign := g.ignoreSet(a, exp)
			if j == 0 && r.Intn(3) == 0 {
				ign = nil
			}
			ws := r.Next() | 1
			if r.Intn(4) == 0 {
				ws = 0
			}
			emit(&Case{A: a, B: b, Ign: ign, Exp: exp, HasExp: true, Stream: fmt.Sprintf("random.k%d", k), WSeed: ws})
			emit(&Case{A: b, B: a, Ign: ign, Exp: exp, HasExp: true, Stream: fmt.Sprintf("random.k%d.reversed", k), WSeed: ws})
		}
	}
}

// matchCases: a fingerprint cut out of a target (members dropped, absent members asked for as null),
// then possibly perturbed.
func matchCases(full bool, r *lib.Rng, emit func(*Case)) {
	g := &treeGen{r: r}
	n := 30000
	if full {
		n = 500000
	}
	var cut func(t *T) *T
	cut = func(t *T) *T {
		c := &T{K: t.K, B: t.B, I: t.I, U: t.U, Uns: t.Uns, F: t.F, S: t.S}
		switch t.K {
		case KArr:
			for _, k := range t.Kids {
				c.Kids = append(c.Kids, cut(k))
			}
		case KObj:
			for i, k := range t.Kids {
				if r.Intn(3) == 0 {
					continue
				}
				c.Keys = append(c.Keys, t.Keys[i])
				c.Kids = append(c.Kids, cut(k))
			}
			if r.Intn(4) == 0 && c.member("zz") == nil && t.member("zz") == nil {
				c.Keys = append(c.Keys, "zz")
				c.Kids = append(c.Kids, nT())
			}
		case KInt:
			if !t.Uns && r.Intn(4) == 0 {
				f := float64(t.I)
				if int64(f) == t.I && f < 1<<62 && f > -(1<<62) {
					c.K, c.F = KFlt, f
				}
			}
		}
		return c
	}
	for i := 0; i < n; i++ {
		target := g.tree(2 + r.Intn(3))
		fp := cut(target)
		ws := r.Next() | 1
		emit(&Case{A: fp, B: target, Stream: "match.cut", WSeed: ws})
		if k := r.Intn(3); k > 0 {
			fp2, _ := g.perturb(fp, k)
			emit(&Case{A: fp2, B: target, Stream: "match.cut-perturbed", WSeed: ws})
		}
	}
}
