package main

import (
	"encoding/json"
	"fmt"
	"math"
	"math/big"
	"sort"
	"strconv"
	"strings"

	"github.com/ohler55/ojg/alt"
	"github.com/ohler55/ojg/gen"

	"verif/harness/lib"
)

// Kind of a harness tree node.
type Kind byte

const (
	KNull Kind = iota
	KBool
	KInt
	KFlt
	KStr
	KBig
	KArr
	KObj
)

// T is the harness's own value tree: the common source of the plain Go value, the generic value and
// the canonical text handed to the Lean driver.
type T struct {
	K    Kind
	B    bool
	I    int64
	U    uint64 // KInt with Uns: the value (always above math.MaxInt64: a uint/uint64 that no int64 holds)
	Uns  bool
	F    float64 // finite; its exact decimal expansion is short (see fltText)
	S    string  // KStr, KBig
	Kids []*T
	Keys []string // KObj: member names, unique, parallel to Kids
}

func (t *T) clone() *T {
	c := *t
	c.Kids = make([]*T, len(t.Kids))
	for i, k := range t.Kids {
		c.Kids[i] = k.clone()
	}
	c.Keys = append([]string(nil), t.Keys...)
	return &c
}

func (t *T) isContainer() bool { return t.K == KArr || t.K == KObj }

// hasBig: the tree holds a value that generic data cannot (json.Number is outside the generic
// model, gen.Int is an int64).
func (t *T) hasBig() bool {
	if t.K == KBig || (t.K == KInt && t.Uns) {
		return true
	}
	for _, k := range t.Kids {
		if k.hasBig() {
			return true
		}
	}
	return false
}

func (t *T) intText() string {
	if t.Uns {
		return strconv.FormatUint(t.U, 10)
	}
	return strconv.FormatInt(t.I, 10)
}

// uT is an unsigned integer leaf: above MaxInt64 it can only be a uint/uint64.
func uT(u uint64) *T {
	if u > math.MaxInt64 {
		return &T{K: KInt, U: u, Uns: true}
	}
	return &T{K: KInt, I: int64(u)}
}

func (t *T) size() int {
	n := 1
	for _, k := range t.Kids {
		n += k.size()
	}
	return n
}

func (t *T) member(k string) *T {
	for i, key := range t.Keys {
		if key == k {
			return t.Kids[i]
		}
	}
	return nil
}

// fltText is the exact decimal expansion of f ("[-]digits[.digits]"); ok=false if it needs more than
// 40 fraction digits (such floats are not generated).
func fltText(f float64) (string, bool) {
	if math.IsNaN(f) || math.IsInf(f, 0) {
		return "", false
	}
	r := new(big.Rat).SetFloat64(f)
	s := r.FloatString(40)
	if strings.Contains(s, ".") {
		s = strings.TrimRight(s, "0")
		s = strings.TrimSuffix(s, ".")
	}
	back, ok := new(big.Rat).SetString(s)
	if !ok || back.Cmp(r) != 0 {
		return "", false
	}
	if s == "-0" {
		s = "0"
	}
	return s, true
}

// canon is the canonical text of the tree (format of JV.render; floats as hex of the decimal text).
func (t *T) canon() string {
	var sb strings.Builder
	t.write(&sb)
	return sb.String()
}

func (t *T) write(sb *strings.Builder) {
	switch t.K {
	case KNull:
		sb.WriteByte('n')
	case KBool:
		if t.B {
			sb.WriteByte('t')
		} else {
			sb.WriteByte('f')
		}
	case KInt:
		fmt.Fprintf(sb, "I(%s)", t.intText())
	case KFlt:
		txt, ok := fltText(t.F)
		if !ok {
			panic(fmt.Sprintf("float %v has no short exact decimal text", t.F))
		}
		fmt.Fprintf(sb, "F(%s)", lib.HexF([]byte(txt)))
	case KStr:
		fmt.Fprintf(sb, "S(%s)", lib.HexF([]byte(t.S)))
	case KBig:
		fmt.Fprintf(sb, "B(%s)", lib.HexF([]byte(t.S)))
	case KArr:
		sb.WriteByte('[')
		for i, k := range t.Kids {
			if i > 0 {
				sb.WriteByte(',')
			}
			k.write(sb)
		}
		sb.WriteByte(']')
	case KObj:
		idx := make([]int, len(t.Keys))
		for i := range idx {
			idx[i] = i
		}
		sort.Slice(idx, func(a, b int) bool { return t.Keys[idx[a]] < t.Keys[idx[b]] })
		sb.WriteByte('{')
		for n, i := range idx {
			if n > 0 {
				sb.WriteByte(',')
			}
			fmt.Fprintf(sb, "K(%s)", lib.HexF([]byte(t.Keys[i])))
			t.Kids[i].write(sb)
		}
		sb.WriteByte('}')
	}
}

// fromNode rebuilds a tree from parsed canonical text (replay, corpus).
func fromNode(n *lib.Node) (*T, error) {
	switch n.Kind {
	case 'n':
		return &T{K: KNull}, nil
	case 't':
		return &T{K: KBool, B: true}, nil
	case 'f':
		return &T{K: KBool}, nil
	case 'I':
		i, err := strconv.ParseInt(n.Text, 10, 64)
		if err != nil {
			u, err2 := strconv.ParseUint(n.Text, 10, 64)
			if err2 != nil {
				return nil, err
			}
			return uT(u), nil
		}
		return &T{K: KInt, I: i}, nil
	case 'F':
		txt, err := lib.UnhexF(n.Text)
		if err != nil {
			return nil, err
		}
		r, ok := new(big.Rat).SetString(string(txt))
		if !ok {
			return nil, fmt.Errorf("bad float text %q", txt)
		}
		f, exact := r.Float64()
		if !exact {
			return nil, fmt.Errorf("float text %q is not a float64", txt)
		}
		return &T{K: KFlt, F: f}, nil
	case 'S', 'B':
		txt, err := lib.UnhexF(n.Text)
		if err != nil {
			return nil, err
		}
		k := KStr
		if n.Kind == 'B' {
			k = KBig
		}
		return &T{K: k, S: string(txt)}, nil
	case '[':
		t := &T{K: KArr}
		for _, kid := range n.Kids {
			c, err := fromNode(kid)
			if err != nil {
				return nil, err
			}
			t.Kids = append(t.Kids, c)
		}
		return t, nil
	case '{':
		t := &T{K: KObj}
		for i, kid := range n.Kids {
			c, err := fromNode(kid)
			if err != nil {
				return nil, err
			}
			key, err := lib.UnhexF(n.Keys[i])
			if err != nil {
				return nil, err
			}
			t.Keys = append(t.Keys, string(key))
			t.Kids = append(t.Kids, c)
		}
		return t, nil
	}
	return nil, fmt.Errorf("bad node kind %c", n.Kind)
}

func parseTree(s string) (*T, error) {
	n, err := lib.ParseCanon(s)
	if err != nil {
		return nil, err
	}
	return fromNode(n)
}

// toSimple builds the plain Go value. With w != nil every number is given a random Go kind among
// those that hold it exactly (the model abstracts from the kind); with w == nil int64/float64.
func (t *T) toSimple(w *lib.Rng) any {
	switch t.K {
	case KNull:
		return nil
	case KBool:
		return t.B
	case KInt:
		if t.Uns {
			if w != nil && w.Bool() {
				return uint(t.U)
			}
			return t.U
		}
		if w == nil {
			return t.I
		}
		return intOfKind(t.I, w)
	case KFlt:
		if w != nil && w.Intn(3) == 0 && float64(float32(t.F)) == t.F {
			return float32(t.F)
		}
		return t.F
	case KStr:
		return t.S
	case KBig:
		return json.Number(t.S)
	case KArr:
		a := make([]any, len(t.Kids))
		for i, k := range t.Kids {
			a[i] = k.toSimple(w)
		}
		return a
	case KObj:
		m := make(map[string]any, len(t.Kids))
		for i, k := range t.Kids {
			m[t.Keys[i]] = k.toSimple(w)
		}
		return m
	}
	return nil
}

func intOfKind(i int64, w *lib.Rng) any {
	for tries := 0; tries < 8; tries++ {
		switch w.Intn(12) {
		case 0:
			return int(i)
		case 1:
			if i >= math.MinInt8 && i <= math.MaxInt8 {
				return int8(i)
			}
		case 2:
			if i >= math.MinInt16 && i <= math.MaxInt16 {
				return int16(i)
			}
		case 3:
			if i >= math.MinInt32 && i <= math.MaxInt32 {
				return int32(i)
			}
		case 4:
			if i >= 0 {
				return uint(i)
			}
		case 5:
			if i >= 0 && i <= math.MaxUint8 {
				return uint8(i)
			}
		case 6:
			if i >= 0 && i <= math.MaxUint16 {
				return uint16(i)
			}
		case 7:
			if i >= 0 && i <= math.MaxUint32 {
				return uint32(i)
			}
		case 8:
			if i >= 0 {
				return uint64(i)
			}
		default:
			return i
		}
	}
	return i
}

// toGen builds the generic value (no KBig inside: gen.Big is outside the model).
func (t *T) toGen() gen.Node {
	switch t.K {
	case KNull:
		return nil
	case KBool:
		return gen.Bool(t.B)
	case KInt:
		if t.Uns {
			panic("toGen: unsigned value above MaxInt64")
		}
		return gen.Int(t.I)
	case KFlt:
		return gen.Float(t.F)
	case KStr:
		return gen.String(t.S)
	case KArr:
		a := make(gen.Array, len(t.Kids))
		for i, k := range t.Kids {
			a[i] = k.toGen()
		}
		return a
	case KObj:
		m := make(gen.Object, len(t.Kids))
		for i, k := range t.Kids {
			m[t.Keys[i]] = k.toGen()
		}
		return m
	}
	panic("toGen: kind outside the generic model")
}

// genAny converts without wrapping a nil Node into a non-nil interface.
func genAny(n gen.Node) any {
	if n == nil {
		return nil
	}
	return n
}

// ---- paths ------------------------------------------------------------------------------------

// Frag is one path fragment: 'k' member name, 'i' index, 'w' wildcard.
type Frag struct {
	K   byte
	Key string
	Idx int
}

type Path []Frag

func kf(k string) Frag { return Frag{K: 'k', Key: k} }
func xf(i int) Frag    { return Frag{K: 'i', Idx: i} }

var wf = Frag{K: 'w'}

func (p Path) text() string {
	if len(p) == 0 {
		return "@"
	}
	parts := make([]string, len(p))
	for i, f := range p {
		switch f.K {
		case 'k':
			parts[i] = "k" + lib.HexF([]byte(f.Key))
		case 'i':
			parts[i] = "i" + strconv.Itoa(f.Idx)
		default:
			parts[i] = "w"
		}
	}
	return strings.Join(parts, "/")
}

func (p Path) with(f Frag) Path {
	q := make(Path, len(p)+1)
	copy(q, p)
	q[len(p)] = f
	return q
}

func pathsText(ps []Path) string {
	if len(ps) == 0 {
		return "-"
	}
	parts := make([]string, len(ps))
	for i, p := range ps {
		parts[i] = p.text()
	}
	return strings.Join(parts, ";")
}

func parsePath(s string) (Path, error) {
	if s == "@" {
		return Path{}, nil
	}
	var p Path
	for _, part := range strings.Split(s, "/") {
		switch {
		case part == "w":
			p = append(p, wf)
		case strings.HasPrefix(part, "i"):
			n, err := strconv.Atoi(part[1:])
			if err != nil {
				return nil, err
			}
			p = append(p, xf(n))
		case strings.HasPrefix(part, "k"):
			b, err := lib.UnhexF(part[1:])
			if err != nil {
				return nil, err
			}
			p = append(p, kf(string(b)))
		default:
			return nil, fmt.Errorf("bad fragment %q", part)
		}
	}
	return p, nil
}

func parsePaths(s string) ([]Path, error) {
	if s == "-" || s == "" {
		return nil, nil
	}
	var ps []Path
	for _, part := range strings.Split(s, ";") {
		p, err := parsePath(part)
		if err != nil {
			return nil, err
		}
		ps = append(ps, p)
	}
	return ps, nil
}

func (p Path) toAlt() alt.Path {
	a := make(alt.Path, len(p))
	for i, f := range p {
		switch f.K {
		case 'k':
			a[i] = f.Key
		case 'i':
			a[i] = f.Idx
		default:
			a[i] = nil
		}
	}
	return a
}

// altText renders a path returned by the library ("?" fragments for anything unexpected).
func altText(a alt.Path) string {
	if len(a) == 0 {
		return "@"
	}
	parts := make([]string, len(a))
	for i, f := range a {
		switch tf := f.(type) {
		case nil:
			parts[i] = "w"
		case int:
			parts[i] = "i" + strconv.Itoa(tf)
		case string:
			parts[i] = "k" + lib.HexF([]byte(tf))
		default:
			parts[i] = fmt.Sprintf("?%T", f)
		}
	}
	return strings.Join(parts, "/")
}

// setOf canonicalises a list of path texts: sorted, duplicates removed, joined.
func setOf(texts []string) string {
	if len(texts) == 0 {
		return "-"
	}
	s := append([]string(nil), texts...)
	sort.Strings(s)
	out := s[:0]
	for i, t := range s {
		if i == 0 || t != s[i-1] {
			out = append(out, t)
		}
	}
	return strings.Join(out, ";")
}

func setOfAnswer(ans string) string {
	if ans == "-" {
		return "-"
	}
	return setOf(strings.Split(ans, ";"))
}

// normSet turns library-shaped paths into specification paths: the marker [nil] is the empty path.
func normSet(set string) string {
	if set == "-" {
		return "-"
	}
	parts := strings.Split(set, ";")
	for i, p := range parts {
		if p == "w" {
			parts[i] = "@"
		}
	}
	return setOf(parts)
}

func inSet(set, p string) bool {
	if set == "-" {
		return false
	}
	for _, q := range strings.Split(set, ";") {
		if q == p {
			return true
		}
	}
	return false
}

// covers: the ignore path g covers p (specification: non-empty, not longer, fragment-wise match).
func covers(g, p Path) bool {
	if len(g) == 0 || len(g) > len(p) {
		return false
	}
	for i, f := range g {
		switch f.K {
		case 'w':
		case 'i':
			if p[i].K != 'i' || p[i].Idx != f.Idx {
				return false
			}
		case 'k':
			if p[i].K != 'k' || p[i].Key != f.Key {
				return false
			}
		}
	}
	return true
}

func ignored(ign []Path, p Path) bool {
	for _, g := range ign {
		if covers(g, p) {
			return true
		}
	}
	return false
}
