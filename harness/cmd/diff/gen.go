package main

import (
	"math"
	"math/big"
	"strconv"

	"verif/harness/lib"
)

// Case is one (v0, v1, ignore set) triple.
type Case struct {
	A, B   *T
	Ign    []Path
	Exp    []Path // leaf differences known by construction (before ignoring); valid if HasExp
	HasExp bool
	Stream string
	WSeed  uint64 // seed of the random choice of Go number kinds for the plain flavour (0 = int64/float64)
	Tag    string // part of the duplicate test: the same triple is kept once per tag (other number kinds)
}

var keyAlphabet = []string{"a", "b", "c", "d", "", "ké"}
var strAlphabet = []string{"", "a", "b", "x y"}

var smallInts = []int64{0, 1, 2, 3, -1, 5, 127, 128, 255, 256, -129, 65536}
var smallFlts = []float64{0, 1, 2, 3, -1, 1.5, -0.25, 2.75, 128, 0.125, 16777216, 16777217}

// numbers around the float64 and int64 limits
var bigInts = []int64{1 << 53, 1<<53 + 1, 1<<53 + 2, 1<<53 + 3, -(1 << 53) - 1, 1<<53 - 1, 1 << 62, 1<<62 + 1, 1<<62 + 512, 1<<62 + 513,
	math.MaxInt64, math.MaxInt64 - 1, math.MaxInt64 - 511, math.MaxInt64 - 512, math.MaxInt64 - 1024, math.MinInt64, math.MinInt64 + 1, math.MinInt64 + 1025,
	1 << 54, 1<<54 + 2, 1<<54 + 6, 1e18, 1e18 + 1}

// unsigned values that no int64 holds
var bigUints = []uint64{1 << 63, 1<<63 + 1, 1<<63 + 5, 1<<63 + 2048, math.MaxUint64, math.MaxUint64 - 1, math.MaxUint64 - 2047, 1<<63 + 1<<62}

var bigFlts = []float64{9223372036854777856, 18446744073709549568, 13835058055282163712, 1 << 53, 1<<53 + 2, 1<<53 + 4, -(1 << 53), -(1 << 53) - 2, 1<<53 - 1, 1 << 62, 1<<62 + 1024, 1 << 63, -(1 << 63), 1 << 64, 1e19, 1e18,
	1 << 54, 1<<54 + 4, 1<<54 + 8, 9223372036854774784, -9223372036854774784, 2251799813685248.5, 1e300, -1e300, math.Copysign(0, -1)}

type treeGen struct {
	r *lib.Rng
}

func (g *treeGen) atom() *T {
	r := g.r
	switch r.Intn(14) {
	case 0, 1:
		return &T{K: KNull}
	case 2:
		return &T{K: KBool, B: r.Bool()}
	case 3, 4, 5:
		return &T{K: KInt, I: lib.Pick(r, smallInts)}
	case 6, 7:
		return &T{K: KFlt, F: lib.Pick(r, smallFlts)}
	case 8, 9:
		return &T{K: KStr, S: lib.Pick(r, strAlphabet)}
	case 10:
		if r.Intn(3) == 0 {
			if r.Intn(4) == 0 {
				return uT(lib.Pick(r, bigUints))
			}
			return &T{K: KInt, I: lib.Pick(r, bigInts)}
		}
		return &T{K: KInt, I: int64(r.Intn(7)) - 3}
	case 11:
		if r.Intn(3) == 0 {
			return &T{K: KFlt, F: lib.Pick(r, bigFlts)}
		}
		return &T{K: KFlt, F: float64(r.Intn(17)-8) / 4}
	case 12:
		if r.Intn(4) == 0 {
			return &T{K: KBig, S: lib.Pick(r, []string{"12", "1e400", "12.50"})}
		}
		return &T{K: KInt, I: 1}
	}
	return &T{K: KInt, I: 2}
}

// tree builds a random tree; arrays of objects and objects of arrays are frequent so that ignore
// paths with several fragments have something to select.
func (g *treeGen) tree(depth int) *T {
	r := g.r
	if depth <= 0 || r.Intn(10) < 3 {
		return g.atom()
	}
	n := r.Intn(4)
	if r.Bool() {
		t := &T{K: KArr}
		uniform := r.Intn(3) == 0 // array of similar objects
		for i := 0; i < n; i++ {
			if uniform {
				o := &T{K: KObj}
				for _, k := range []string{"a", "b"} {
					if r.Intn(5) > 0 {
						o.Keys = append(o.Keys, k)
						o.Kids = append(o.Kids, g.tree(depth-2))
					}
				}
				t.Kids = append(t.Kids, o)
			} else {
				t.Kids = append(t.Kids, g.tree(depth-1))
			}
		}
		return t
	}
	t := &T{K: KObj}
	for i := 0; i < n; i++ {
		k := keyAlphabet[r.Intn(4)]
		if r.Intn(12) == 0 {
			k = lib.Pick(r, keyAlphabet)
		}
		if t.member(k) != nil {
			continue
		}
		t.Keys = append(t.Keys, k)
		t.Kids = append(t.Kids, g.tree(depth-1))
	}
	return t
}

// ---- exact scalar equivalence on the harness side (for the generator only) --------------------

func ratOf(t *T) *big.Rat {
	switch t.K {
	case KInt:
		if t.Uns {
			return new(big.Rat).SetInt(new(big.Int).SetUint64(t.U))
		}
		return new(big.Rat).SetInt64(t.I)
	case KFlt:
		return new(big.Rat).SetFloat64(t.F)
	}
	return nil
}

// atomEquiv: equal atoms, numbers by exact value.
func atomEquiv(a, b *T) bool {
	if a.isContainer() || b.isContainer() {
		return false
	}
	ra, rb := ratOf(a), ratOf(b)
	if ra != nil || rb != nil {
		return ra != nil && rb != nil && ra.Cmp(rb) == 0
	}
	if a.K != b.K {
		return false
	}
	switch a.K {
	case KNull:
		return true
	case KBool:
		return a.B == b.B
	default:
		return a.S == b.S
	}
}

// ---- perturbation -----------------------------------------------------------------------------

type slot struct {
	path   Path
	parent *T
	idx    int // position in parent.Kids (root: parent == nil)
}

func collectSlots(t *T, parent *T, idx int, p Path, out *[]slot) {
	*out = append(*out, slot{path: p, parent: parent, idx: idx})
	for i, k := range t.Kids {
		if t.K == KArr {
			collectSlots(k, t, i, p.with(xf(i)), out)
		} else {
			collectSlots(k, t, i, p.with(kf(t.Keys[i])), out)
		}
	}
}

func isPrefix(p, q Path) bool {
	if len(p) > len(q) {
		return false
	}
	for i := range p {
		if p[i] != q[i] {
			return false
		}
	}
	return true
}

// perturb returns a copy of a changed at k pairwise non-nested places together with the exact set of
// leaf differences the changes create (some changes are neutral: numeric width, null members).
func (g *treeGen) perturb(a *T, k int) (*T, []Path) {
	r := g.r
	root := &T{K: KArr, Kids: []*T{a.clone()}} // holder so that the root can be replaced too
	var slots []slot
	collectSlots(root.Kids[0], root, 0, Path{}, &slots)
	var used []Path
	var exp []Path
	for n := 0; n < k; n++ {
		var s slot
		found := false
		for tries := 0; tries < 12 && !found; tries++ {
			s = slots[r.Intn(len(slots))]
			found = true
			for _, u := range used {
				if isPrefix(u, s.path) || isPrefix(s.path, u) {
					found = false
					break
				}
			}
		}
		if !found {
			break
		}
		used = append(used, s.path)
		old := s.parent.Kids[s.idx]
		set := func(t *T) { s.parent.Kids[s.idx] = t }
		op := r.Intn(10)
		switch {
		case op <= 1 && old.K == KArr: // resize
			l := len(old.Kids)
			nl := r.Intn(l + 3)
			if nl == l {
				nl = l + 1
			}
			if nl < l {
				old.Kids = old.Kids[:nl]
				exp = append(exp, s.path.with(xf(nl)))
			} else {
				for len(old.Kids) < nl {
					old.Kids = append(old.Kids, g.tree(1))
				}
				exp = append(exp, s.path.with(xf(l)))
			}
		case op <= 1 && old.K == KObj && len(old.Kids) > 0: // delete a member
			i := r.Intn(len(old.Kids))
			if old.Kids[i].K != KNull {
				exp = append(exp, s.path.with(kf(old.Keys[i])))
			}
			old.Kids = append(old.Kids[:i:i], old.Kids[i+1:]...)
			old.Keys = append(old.Keys[:i:i], old.Keys[i+1:]...)
		case op <= 3 && old.K == KObj: // add a member
			key := lib.Pick(r, keyAlphabet)
			for n := 0; old.member(key) != nil; n++ {
				key = "zz" + strconv.Itoa(n)
			}
			v := g.tree(1)
			old.Keys = append(old.Keys, key)
			old.Kids = append(old.Kids, v)
			if v.K != KNull {
				exp = append(exp, s.path.with(kf(key)))
			}
		case op == 4 && (old.K == KInt || old.K == KFlt): // same number, other kind
			if old.K == KInt {
				f := float64(old.I)
				if old.Uns {
					f = float64(old.U)
				}
				if new(big.Rat).SetFloat64(f).Cmp(ratOf(old)) == 0 {
					set(&T{K: KFlt, F: f})
				}
			} else if old.F == math.Trunc(old.F) && old.F >= -(1<<63) && old.F < 1<<63 {
				set(&T{K: KInt, I: int64(old.F)})
			} else if old.F >= 1<<63 && old.F < 1<<64 {
				set(uT(uint64(old.F)))
			}
		case op == 5: // another kind of container, or a container for an atom
			var nt *T
			for {
				nt = g.tree(2)
				if nt.isContainer() && nt.K != old.K {
					break
				}
			}
			set(nt)
			exp = append(exp, s.path)
		default: // an atom that is not equivalent
			var nt *T
			for {
				nt = g.atom()
				if old.K == KInt && !old.Uns && r.Intn(4) == 0 { // a near miss
					nt = &T{K: lib.Pick(r, []Kind{KInt, KFlt}), I: old.I + 1, F: float64(old.I) + 0.5}
				}
				if !atomEquiv(old, nt) {
					break
				}
			}
			set(nt)
			exp = append(exp, s.path)
		}
	}
	return root.Kids[0], exp
}

// ---- ignore sets ------------------------------------------------------------------------------

func (g *treeGen) randFrag() Frag {
	r := g.r
	switch r.Intn(3) {
	case 0:
		return wf
	case 1:
		return xf(r.Intn(4))
	}
	return kf(keyAlphabet[r.Intn(4)])
}

func (g *treeGen) ignorePath(exp []Path, nodes []slot) Path {
	r := g.r
	var base Path
	switch c := r.Intn(10); {
	case c < 5 && len(exp) > 0:
		base = exp[r.Intn(len(exp))]
	case c < 8 && len(nodes) > 1:
		base = nodes[1+r.Intn(len(nodes)-1)].path
	default:
		for i, n := 0, 1+r.Intn(3); i < n; i++ {
			base = append(base, g.randFrag())
		}
	}
	p := append(Path{}, base...)
	switch r.Intn(6) {
	case 0:
		if len(p) > 1 {
			p = p[:1+r.Intn(len(p)-1)]
		}
	case 1:
		p = append(p, g.randFrag())
	}
	for i := range p {
		switch c := r.Intn(20); {
		case c < 4:
			p[i] = wf
		case c < 6:
			if p[i].K == 'i' {
				p[i] = xf(p[i].Idx + r.Intn(3) - 1)
			} else {
				p[i] = kf(keyAlphabet[r.Intn(4)])
			}
		case c == 6:
			p[i] = g.randFrag()
		}
	}
	switch r.Intn(40) {
	case 0:
		return Path{}
	case 1:
		if len(p) > 0 {
			p[r.Intn(len(p))] = xf(-1 - r.Intn(2))
		}
	}
	return p
}

func (g *treeGen) ignoreSet(a *T, exp []Path) []Path {
	r := g.r
	n := []int{0, 1, 1, 2, 2, 3}[r.Intn(6)]
	if n == 0 {
		return nil
	}
	var nodes []slot
	collectSlots(a, nil, 0, Path{}, &nodes)
	ign := make([]Path, n)
	for i := range ign {
		ign[i] = g.ignorePath(exp, nodes)
	}
	return ign
}

// ---- exhaustive boxes -------------------------------------------------------------------------

// universe returns every tree of the given depth over the atoms: arrays of length <= maxLen and
// objects whose member names are a subset of keys.
func universe(atoms []*T, keys []string, maxLen, depth int) []*T {
	level := append([]*T(nil), atoms...)
	for d := 0; d < depth; d++ {
		next := append([]*T(nil), atoms...)
		// arrays
		var rec func(prefix []*T)
		rec = func(prefix []*T) {
			next = append(next, &T{K: KArr, Kids: append([]*T(nil), prefix...)})
			if len(prefix) == maxLen {
				return
			}
			for _, x := range level {
				rec(append(prefix, x))
			}
		}
		rec(nil)
		// objects
		var reco func(i int, ks []string, vs []*T)
		reco = func(i int, ks []string, vs []*T) {
			if i == len(keys) {
				next = append(next, &T{K: KObj, Keys: append([]string(nil), ks...), Kids: append([]*T(nil), vs...)})
				return
			}
			reco(i+1, ks, vs)
			for _, x := range level {
				reco(i+1, append(ks, keys[i]), append(vs, x))
			}
		}
		reco(0, nil, nil)
		level = next
	}
	return level
}

// pathsOver lists every path of length 1..maxLen over the fragments.
func pathsOver(frags []Frag, maxLen int) []Path {
	var out []Path
	var rec func(p Path)
	rec = func(p Path) {
		if len(p) > 0 {
			out = append(out, append(Path{}, p...))
		}
		if len(p) == maxLen {
			return
		}
		for _, f := range frags {
			rec(append(p, f))
		}
	}
	rec(nil)
	return out
}

// setsUpTo lists every set of at most n of the paths (as ordered lists without repetition, i < j).
func setsUpTo(ps []Path, n int) [][]Path {
	out := [][]Path{nil}
	var rec func(start int, cur []Path)
	rec = func(start int, cur []Path) {
		if len(cur) > 0 {
			out = append(out, append([]Path(nil), cur...))
		}
		if len(cur) == n {
			return
		}
		for i := start; i < len(ps); i++ {
			rec(i+1, append(cur, ps[i]))
		}
	}
	rec(0, nil)
	return out
}
