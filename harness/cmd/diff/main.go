// Correspondence and oracle harness for alt.Diff / alt.Compare / alt.Match (property C19).
//
// Every case is a triple (v0, v1, ignore paths) built from the harness's own tree type; it is run
// through the real library as plain data (map[string]any / []any, numbers of random Go kinds) and
// as generic data (gen.Object / gen.Array …), and the Lean driver is asked for the model's answer
// (lean/OjgVerif/Diff/Model.lean, with the deviations of the current code) and for the
// specification's (lean/OjgVerif/Diff/Spec.lean). Results are compared as sets of paths.
//
//	disagreement: model != implementation                                   (the tie)
//	violation:    implementation != specification                           (the oracle)
//	known:        a violation that one of the model's named deviation flags reproduces exactly
//
// For perturbation cases the set of differences is also known by construction and must agree with
// the specification side of the driver (class oracle-construction otherwise).
package main

import (
	"encoding/json"
	"flag"
	"fmt"
	"hash/fnv"
	"os"
	"strconv"
	"strings"
	"sync"
	"sync/atomic"

	"github.com/ohler55/ojg/alt"

	"verif/harness/lib"
)

var (
	prop    = flag.String("prop", "C19", "property id")
	tier    = flag.String("tier", "quick", "quick|thorough")
	seed    = flag.Uint64("seed", 1, "PRNG seed")
	driver  = flag.String("driver", "", "path of drv_diff")
	outPath = flag.String("out", "", "report path")
	replay  = flag.String("replay", "", "replay file")
	corpus  = flag.String("corpus", "", "corpus file: lines '<v0> <v1> <ignores>' in driver text")
	known   = flag.String("known", "", "known_findings.json")
	workers = flag.Int("workers", 16, "parallel workers")
)

var rep *lib.Report
var knownList []lib.Known

// curDev names the deviation set the model is asked for: "cur" is Dev.current of Model.lean.
// VERIF_C19_DEV overrides it (a subset of the letters l f t g u, or "-") so that a proposed fix can be
// checked in a scratch tree against the model with the corresponding flag switched off.
var curDev = "cur"

// the deviation flags of the model (Dev in Model.lean) and the known finding each one stands for.
// Only the flags whose finding is still listed under "known" in known_findings.json take part in
// the classification of a deviation (today: f alone; l, t, g are repaired and listed as fixed, so a
// reappearance of one of them is a plain violation).
var devFlags = []struct {
	letter string
	id     string
}{
	{"l", "C19-multi-index-ignore"},
	{"f", "C19-int-float-2p53"},
	{"t", "C19-ignored-length-index"},
	{"g", "C19-gen-root-number"},
	{"u", "C19-uint64-wrap"},
}

func flagID(letter byte) string {
	for _, d := range devFlags {
		if d.letter[0] == letter {
			return d.id
		}
	}
	return "?"
}

// knownLetters: those of the given flag letters whose known finding is listed.
func knownLetters(among string) string {
	out := ""
	for _, d := range devFlags {
		if strings.Contains(among, d.letter) && lib.HasKnown(knownList, d.id) {
			out += d.letter
		}
	}
	return out
}

// subsets of the letters ordered by size (the empty set is "-")
func subsets(letters string) []string {
	n := len(letters)
	var out []string
	for size := 0; size <= n; size++ {
		for m := 0; m < 1<<n; m++ {
			cnt := 0
			s := ""
			for i := 0; i < n; i++ {
				if m&(1<<i) != 0 {
					cnt++
					s += string(letters[i])
				}
			}
			if cnt == size {
				if s == "" {
					s = "-"
				}
				out = append(out, s)
			}
		}
	}
	return out
}

// ---- calls into the library, each under recover ----------------------------------------------

func safeDiff(a, b any, ign []alt.Path, count *int) (res string) {
	defer func() {
		if r := recover(); r != nil {
			res = fmt.Sprintf("panic %v", r)
		}
	}()
	ds := alt.Diff(a, b, ign...)
	texts := make([]string, len(ds))
	for i, d := range ds {
		texts[i] = altText(d)
	}
	*count = len(ds)
	return setOf(texts)
}

func safeCompare(a, b any, ign []alt.Path) (res string) {
	defer func() {
		if r := recover(); r != nil {
			res = fmt.Sprintf("panic %v", r)
		}
	}()
	d := alt.Compare(a, b, ign...)
	if d == nil {
		return "nil"
	}
	return altText(d)
}

func safeMatch(f, t any) (res string) {
	defer func() {
		if r := recover(); r != nil {
			res = fmt.Sprintf("panic %v", r)
		}
	}()
	if alt.Match(f, t) {
		return "t"
	}
	return "f"
}

func answerCount(ans string) int {
	if ans == "-" {
		return 0
	}
	return strings.Count(ans, ";") + 1
}

func altIgnores(ign []Path) []alt.Path {
	out := make([]alt.Path, len(ign))
	for i, p := range ign {
		out[i] = p.toAlt()
	}
	return out
}

// ---- one case --------------------------------------------------------------------------------

type flavRun struct {
	fl        string
	implDiff  string
	implCount int // number of paths returned, repetitions included
	implCmp   string
	implMatch string
	qDiff     int // request indexes
	qOne      int
	qMatch    int
}

type caseRun struct {
	c        *Case
	a, b, ig string
	flavs    []flavRun
	qSpec    int
	qSpecM   int
}

type pending struct {
	cr      *caseRun
	fr      *flavRun
	what    string // "diff" | "match"
	impl    string // implementation answer in the model's form
	spec    string
	subs    []string
	q0      int
	classHd string
}

func prepare(c *Case, reqs *[]string) *caseRun {
	cr := &caseRun{c: c, a: c.A.canon(), b: c.B.canon(), ig: pathsText(c.Ign)}
	add := func(s string) int {
		*reqs = append(*reqs, s)
		return len(*reqs) - 1
	}
	cr.qSpec = add("spec\t" + cr.a + "\t" + cr.b + "\t" + cr.ig)
	cr.qSpecM = add("specmatch\t" + cr.a + "\t" + cr.b)
	ign := altIgnores(c.Ign)
	var w0, w1 *lib.Rng
	if c.WSeed != 0 {
		w0, w1 = lib.NewRng(c.WSeed), lib.NewRng(c.WSeed^0x5555)
	}
	flavours := []string{"s"}
	if !c.A.hasBig() && !c.B.hasBig() {
		flavours = append(flavours, "g")
	}
	for _, fl := range flavours {
		var va, vb any
		if fl == "s" {
			va, vb = c.A.toSimple(w0), c.B.toSimple(w1)
		} else {
			va, vb = genAny(c.A.toGen()), genAny(c.B.toGen())
		}
		fr := flavRun{fl: fl}
		fr.implDiff = safeDiff(va, vb, ign, &fr.implCount)
		fr.implCmp = safeCompare(va, vb, altIgnores(c.Ign))
		fr.implMatch = safeMatch(va, vb)
		fr.qDiff = add("diff\t" + fl + "\t" + curDev + "\t0\t" + cr.a + "\t" + cr.b + "\t" + cr.ig)
		fr.qOne = add("diff\t" + fl + "\t" + curDev + "\t1\t" + cr.a + "\t" + cr.b + "\t" + cr.ig)
		fr.qMatch = add("match\t" + fl + "\t" + curDev + "\t" + cr.a + "\t" + cr.b)
		cr.flavs = append(cr.flavs, fr)
	}
	return cr
}

func (cr *caseRun) replayOf(fr *flavRun, extra map[string]any) map[string]any {
	m := map[string]any{"v0": cr.a, "v1": cr.b, "ignores": cr.ig, "wseed": fmt.Sprint(cr.c.WSeed), "stream": cr.c.Stream,
		"v0_json": jsonish(cr.c.A), "v1_json": jsonish(cr.c.B), "ignores_go": goPaths(cr.c.Ign)}
	if fr != nil {
		m["flavour"] = fr.fl
	}
	for k, v := range extra {
		m[k] = v
	}
	return m
}

func add(kind, class, what string, replay map[string]any) {
	rep.Add(lib.Finding{Kind: kind, Class: class, What: what, Replay: replay})
}

func judge(cr *caseRun, ans []string, pend *[]pending, reqs2 *[]string) {
	c := cr.c
	spec := setOfAnswer(ans[cr.qSpec])
	specM := ans[cr.qSpecM]
	if strings.HasPrefix(ans[cr.qSpec], "bad-op") || specM == "bad-op" {
		add("disagreement", "driver-bad-op", "the driver refused the case", cr.replayOf(nil, nil))
		return
	}
	nontrivial := int64(0)
	if cr.a != cr.b || len(c.Ign) > 0 {
		nontrivial = 1
	}
	rep.AddEval(1, nontrivial)
	rep.Count("stream."+c.Stream, 1)
	rep.Count(fmt.Sprintf("ignores.%d", len(c.Ign)), 1)
	nd := 0
	if spec != "-" {
		nd = strings.Count(spec, ";") + 1
	}
	if nd > 4 {
		nd = 4
	}
	rep.Count(fmt.Sprintf("spec.differences.%d%s", nd, map[bool]string{true: "+", false: ""}[nd == 4]), 1)
	rep.Count("spec.match."+specM, 1)
	if c.HasExp {
		var kept []string
		for _, p := range c.Exp {
			if !ignored(c.Ign, p) {
				kept = append(kept, p.text())
			}
		}
		if len(kept) < len(c.Exp) {
			rep.Count("ignores.covering_an_injected_difference", 1)
			if len(kept) > 0 {
				rep.Count("ignores.covering_some_but_not_all", 1)
			}
		}
		if want := setOf(kept); want != spec {
			add("disagreement", "oracle-construction", "the differences injected by the generator are not the specification's",
				cr.replayOf(nil, map[string]any{"constructed": want, "spec": spec}))
		}
	}
	for i := range cr.flavs {
		fr := &cr.flavs[i]
		rep.Count("runs."+fr.fl, 1)
		model := setOfAnswer(ans[fr.qDiff])
		modelOne := setOfAnswer(ans[fr.qOne])
		modelM := ans[fr.qMatch]
		info := map[string]any{"impl": fr.implDiff, "model": model, "spec": spec}
		// ---- Diff
		if strings.HasPrefix(fr.implDiff, "panic") {
			add("violation", "panic:Diff:"+fr.fl, "Diff panicked: "+fr.implDiff, cr.replayOf(fr, info))
		} else {
			if fr.implDiff != model {
				add("disagreement", "model-diff:"+fr.fl, "model and implementation return different path sets", cr.replayOf(fr, info))
			} else if n := answerCount(ans[fr.qDiff]); n != fr.implCount {
				info["impl_count"], info["model_count"] = fr.implCount, n
				add("disagreement", "model-diff-multiplicity:"+fr.fl, "model and implementation return the same paths a different number of times", cr.replayOf(fr, info))
			}
			if normSet(fr.implDiff) != spec {
				rep.Count("impl.diff_deviates."+fr.fl, 1)
				p := pending{cr: cr, fr: fr, what: "diff", impl: fr.implDiff, spec: spec, subs: subsets(knownLetters("lftgu")), q0: len(*reqs2), classHd: "diff:" + fr.fl}
				for _, s := range p.subs {
					*reqs2 = append(*reqs2, "diff\t"+fr.fl+"\t"+s+"\t0\t"+cr.a+"\t"+cr.b+"\t"+cr.ig)
				}
				*pend = append(*pend, p)
			}
		}
		// ---- Compare: nil exactly when Diff is empty, otherwise one of Diff's paths
		cinfo := map[string]any{"compare": fr.implCmp, "diff": fr.implDiff, "model_one": modelOne, "model": model}
		switch {
		case strings.HasPrefix(fr.implCmp, "panic"):
			add("violation", "panic:Compare:"+fr.fl, "Compare panicked: "+fr.implCmp, cr.replayOf(fr, cinfo))
		case strings.HasPrefix(fr.implDiff, "panic"):
		default:
			if (fr.implCmp == "nil") != (fr.implDiff == "-") {
				add("violation", "compare-nil:"+fr.fl, "Compare is nil but Diff is not empty, or the reverse", cr.replayOf(fr, cinfo))
			} else if fr.implCmp != "nil" && !inSet(fr.implDiff, fr.implCmp) {
				add("violation", "compare-member:"+fr.fl, "Compare's path is not one of Diff's", cr.replayOf(fr, cinfo))
			}
			if (fr.implCmp == "nil") != (modelOne == "-") {
				add("disagreement", "model-compare:"+fr.fl, "model and implementation disagree on Compare being nil", cr.replayOf(fr, cinfo))
			} else if fr.implCmp != "nil" && !inSet(model, fr.implCmp) {
				add("disagreement", "model-compare:"+fr.fl, "Compare's path is not in the model's Diff", cr.replayOf(fr, cinfo))
			}
			if modelOne != "-" && !inSet(model, modelOne) {
				add("disagreement", "model-compare:"+fr.fl, "the model's one-mode path is not in the model's Diff", cr.replayOf(fr, cinfo))
			}
		}
		// ---- Match
		minfo := map[string]any{"impl": fr.implMatch, "model": modelM, "spec": specM}
		if strings.HasPrefix(fr.implMatch, "panic") {
			add("violation", "panic:Match:"+fr.fl, "Match panicked: "+fr.implMatch, cr.replayOf(fr, minfo))
		} else {
			if fr.implMatch != modelM {
				add("disagreement", "model-match:"+fr.fl, "model and implementation disagree on Match", cr.replayOf(fr, minfo))
			}
			if fr.implMatch != specM {
				rep.Count("impl.match_deviates."+fr.fl, 1)
				p := pending{cr: cr, fr: fr, what: "match", impl: fr.implMatch, spec: specM, subs: subsets(knownLetters("fgu")), q0: len(*reqs2), classHd: "match:" + fr.fl}
				for _, s := range p.subs {
					*reqs2 = append(*reqs2, "match\t"+fr.fl+"\t"+s+"\t"+cr.a+"\t"+cr.b)
				}
				*pend = append(*pend, p)
			}
		}
	}
}

// classify decides whether a deviation from the specification is exactly what a set of named
// deviation flags of the model produces (then it is the known finding(s) of those flags) or not.
func classify(p *pending, ans []string) {
	info := map[string]any{"impl": p.impl, "spec": p.spec}
	for i, s := range p.subs {
		got := ans[p.q0+i]
		if p.what == "diff" {
			got = setOfAnswer(got)
		}
		if got != p.impl {
			continue
		}
		if s == "-" {
			break // the fixed model gives the implementation's answer yet the specification differs: not explained
		}
		all := true
		for j := 0; j < len(s); j++ {
			if !lib.HasKnown(knownList, flagID(s[j])) {
				all = false
			}
		}
		if !all {
			break
		}
		info["explained_by_flags"] = s
		for j := 0; j < len(s); j++ {
			id := flagID(s[j])
			rep.Add(lib.Finding{Kind: "known", Class: p.classHd + ":" + id, KnownID: id,
				What: "deviation reproduced by the model flag '" + string(s[j]) + "' only", Replay: p.cr.replayOf(p.fr, info)})
		}
		return
	}
	class := p.classHd
	if p.what == "diff" {
		missed, spurious := false, false
		implN := normSet(p.impl)
		for _, q := range strings.Split(p.spec, ";") {
			if p.spec != "-" && !inSet(implN, q) {
				missed = true
			}
		}
		for _, q := range strings.Split(implN, ";") {
			if implN != "-" && !inSet(p.spec, q) {
				spurious = true
			}
		}
		switch {
		case missed && spurious:
			class += ":wrong"
		case missed:
			class += ":missed"
		default:
			class += ":spurious"
		}
		add("violation", class, "Diff's paths are not the differences the ignore paths leave", p.cr.replayOf(p.fr, info))
		return
	}
	add("violation", class, "Match disagrees with the fingerprint relation", p.cr.replayOf(p.fr, info))
}

func processBatch(d *lib.Driver, batch []*Case) error {
	var reqs []string
	runs := make([]*caseRun, len(batch))
	for i, c := range batch {
		runs[i] = prepare(c, &reqs)
	}
	ans, err := d.Ask(reqs)
	if err != nil {
		return err
	}
	var pend []pending
	var reqs2 []string
	for _, cr := range runs {
		judge(cr, ans, &pend, &reqs2)
	}
	if len(pend) > 0 {
		ans2, err := d.Ask(reqs2)
		if err != nil {
			return err
		}
		for i := range pend {
			classify(&pend[i], ans2)
		}
	}
	return nil
}

// ---- readable forms for replay files ----------------------------------------------------------

func jsonish(t *T) string {
	switch t.K {
	case KNull:
		return "null"
	case KBool:
		return fmt.Sprint(t.B)
	case KInt:
		if t.Uns {
			return "uint64(" + t.intText() + ")"
		}
		return fmt.Sprintf("int(%d)", t.I)
	case KFlt:
		s, _ := fltText(t.F)
		return "float(" + s + ")"
	case KStr:
		return fmt.Sprintf("%q", t.S)
	case KBig:
		return "number(" + t.S + ")"
	case KArr:
		parts := make([]string, len(t.Kids))
		for i, k := range t.Kids {
			parts[i] = jsonish(k)
		}
		return "[" + strings.Join(parts, ",") + "]"
	}
	parts := make([]string, len(t.Kids))
	for i, k := range t.Kids {
		parts[i] = fmt.Sprintf("%q:%s", t.Keys[i], jsonish(k))
	}
	return "{" + strings.Join(parts, ",") + "}"
}

func goPaths(ign []Path) string {
	parts := make([]string, len(ign))
	for i, p := range ign {
		fs := make([]string, len(p))
		for j, f := range p {
			switch f.K {
			case 'k':
				fs[j] = fmt.Sprintf("%q", f.Key)
			case 'i':
				fs[j] = fmt.Sprint(f.Idx)
			default:
				fs[j] = "nil"
			}
		}
		parts[i] = "Path{" + strings.Join(fs, ",") + "}"
	}
	return strings.Join(parts, " ")
}

// ---- main ------------------------------------------------------------------------------------

func main() {
	flag.Parse()
	rep = lib.NewReport(*prop, *tier, *seed)
	knownList = lib.LoadKnown(*known, *prop)
	if d := os.Getenv("VERIF_C19_DEV"); d != "" {
		curDev = d
		rep.Notes = append(rep.Notes, "model deviation set overridden by VERIF_C19_DEV="+d)
	}
	if *replay != "" {
		runReplay()
		return
	}
	full := *tier == "thorough"
	cases := make(chan []*Case, 64)
	var wg sync.WaitGroup
	var fatal atomic.Value
	for w := 0; w < *workers; w++ {
		wg.Add(1)
		go func() {
			defer wg.Done()
			d, err := lib.StartDriver(*driver)
			if err != nil {
				fatal.Store(err.Error())
				for range cases {
				}
				return
			}
			defer d.Close()
			for batch := range cases {
				if fatal.Load() != nil {
					continue
				}
				if err := processBatch(d, batch); err != nil {
					fatal.Store(err.Error())
				}
			}
		}()
	}
	var cur []*Case
	seen := map[uint64]struct{}{}
	sampled := 0
	emit := func(c *Case) {
		h := fnv.New64a()
		h.Write([]byte(c.A.canon()))
		h.Write([]byte{0})
		h.Write([]byte(c.B.canon()))
		h.Write([]byte{0})
		h.Write([]byte(pathsText(c.Ign)))
		h.Write([]byte{0})
		h.Write([]byte(c.Tag))
		k := h.Sum64()
		if _, dup := seen[k]; dup {
			rep.Count("stream.duplicates_skipped", 1)
			return
		}
		seen[k] = struct{}{}
		if sampled < 12 && len(seen)%4001 == 7 {
			sampled++
			rep.Sample(map[string]any{"stream": c.Stream, "v0": jsonish(c.A), "v1": jsonish(c.B), "ignores": goPaths(c.Ign)})
		}
		cur = append(cur, c)
		if len(cur) >= 128 {
			cases <- cur
			cur = nil
		}
	}
	on := func(name string) bool {
		sel := os.Getenv("VERIF_STREAMS")
		return sel == "" || strings.Contains(","+sel+",", ","+name+",")
	}
	rng := lib.NewRng(*seed)
	if on("corpus") {
		corpusCases(emit)
	}
	if on("boundary") {
		boundaryCases(emit)
	}
	if on("box") {
		boxCases(full, rng.Fork(1), emit)
	}
	if on("rand") {
		randomCases(full, rng.Fork(2), emit)
	}
	if on("match") {
		matchCases(full, rng.Fork(3), emit)
	}
	if len(cur) > 0 {
		cases <- cur
	}
	close(cases)
	wg.Wait()
	if e := fatal.Load(); e != nil {
		fmt.Fprintln(os.Stderr, "harness failure:", e)
		os.Exit(3)
	}
	rep.Rule = "cases (v0, v1, ignore paths): corpus; number/null/length/ignore boundary families; exhaustive boxes of small trees (all ordered pairs) times small ignore sets; seeded random trees perturbed at 0-4 pairwise non-nested places (difference set known by construction), both directions, with 0-3 ignore paths derived from the differences and the tree (wildcards, shifted indexes, other names, prefixes, extensions, negative index, empty path); fingerprints cut out of a target and perturbed. Each case runs Diff, Compare and Match on plain data (numbers of random Go kinds) and on generic data; path lists are compared as sets; duplicates (same canonical text) are dropped; distinct_nontrivial counts cases with v0 != v1 or a non-empty ignore set"
	if err := rep.Write(*outPath); err != nil {
		fmt.Fprintln(os.Stderr, err)
		os.Exit(3)
	}
}

func runReplay() {
	data, err := os.ReadFile(*replay)
	if err != nil {
		fmt.Fprintln(os.Stderr, err)
		os.Exit(3)
	}
	var r struct {
		Replay map[string]any `json:"replay"`
	}
	if err := json.Unmarshal(data, &r); err != nil || r.Replay == nil {
		fmt.Fprintln(os.Stderr, "bad replay file")
		os.Exit(3)
	}
	str := func(k string) string { s, _ := r.Replay[k].(string); return s }
	a, e1 := parseTree(str("v0"))
	b, e2 := parseTree(str("v1"))
	ign, e3 := parsePaths(str("ignores"))
	if e1 != nil || e2 != nil || e3 != nil {
		fmt.Fprintln(os.Stderr, "bad replay case:", e1, e2, e3)
		os.Exit(3)
	}
	ws, _ := strconv.ParseUint(str("wseed"), 10, 64)
	d, err := lib.StartDriver(*driver)
	if err != nil {
		fmt.Fprintln(os.Stderr, err)
		os.Exit(3)
	}
	defer d.Close()
	if err := processBatch(d, []*Case{{A: a, B: b, Ign: ign, Stream: "replay", WSeed: ws}}); err != nil {
		fmt.Fprintln(os.Stderr, err)
		os.Exit(3)
	}
	rep.Rule = "replay of one case"
	_ = rep.Write(*outPath)
	for _, f := range rep.Findings {
		fmt.Printf("%s %s: %s\n", f.Kind, f.Class, f.What)
	}
}
