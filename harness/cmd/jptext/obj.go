package main

import (
	"fmt"
	"math"
	"reflect"
	"regexp"
	"sort"
	"strconv"
	"strings"
	"unsafe"

	"github.com/ohler55/ojg/jp"
	"verif/harness/lib"
)

// ---- descriptions of objects: what the public constructors are called with --------------------------

// FragD describes one fragment. Kind: R A C N W D U S F.
type FragD struct {
	Kind byte
	Key  string
	N    int
	Ints []int // slice
	Mems []any // union: string | int64
	Eq   *EqD  // filter
}

type ExprD []FragD

// EqD describes one equation node. Op == "" is a constant.
type EqD struct {
	Op   string // Go variable name of the operator: eq neq … not get length count match search
	Val  *ValD
	L, R *EqD
}

// ValD describes a constant. Kind: n 0 b i d s l r (x only under get/length/count).
type ValD struct {
	Kind byte
	B    bool
	I    int64
	F    float64
	S    string
	L    []ValD
	X    ExprD
}

var binCtor = map[string]func(l, r *jp.Equation) *jp.Equation{
	"eq": jp.Eq, "neq": jp.Neq, "lt": jp.Lt, "gt": jp.Gt, "lte": jp.Lte, "gte": jp.Gte, "or": jp.Or, "and": jp.And,
	"add": jp.Add, "sub": jp.Sub, "mult": jp.Multiply, "divide": jp.Divide, "in": jp.In, "empty": jp.Empty,
	"has": jp.Has, "exists": jp.Exists, "rx": jp.Regex, "match": jp.Match, "search": jp.Search,
}

var binOpNames = []string{"eq", "neq", "lt", "gt", "lte", "gte", "or", "and", "add", "sub", "mult", "divide", "in", "empty",
	"has", "exists", "rx", "match", "search"}

// Build makes the jp.Expr through the public constructors only.
func (x ExprD) Build() jp.Expr {
	var e jp.Expr
	for i, f := range x {
		if i == 0 {
			switch f.Kind {
			case 'R':
				e = jp.R()
			case 'A':
				e = jp.A()
			case 'C':
				e = jp.C(f.Key)
			case 'N':
				e = jp.N(f.N)
			case 'W':
				e = jp.W()
			case 'D':
				e = jp.D()
			case 'U':
				e = jp.U(f.Mems...)
			case 'S':
				if len(f.Ints) == 0 {
					e = jp.Expr{jp.Slice{}}
				} else {
					e = jp.S(f.Ints[0], f.Ints[1:]...)
				}
			case 'F':
				e = jp.F(f.Eq.Build())
			case 'P':
				e = jp.B()
			}
			continue
		}
		switch f.Kind {
		case 'P':
			// the flag fragment: through the builder, or appended as the public type (the same value)
			if i%2 == 0 {
				e = e.B()
			} else {
				e = append(e, jp.Bracket(' '))
			}
		case 'R':
			e = e.Root()
		case 'A':
			e = e.At()
		case 'C':
			e = e.Child(f.Key)
		case 'N':
			e = e.Nth(f.N)
		case 'W':
			e = e.Wildcard()
		case 'D':
			e = e.Descent()
		case 'U':
			e = e.Union(f.Mems...)
		case 'S':
			if len(f.Ints) == 0 {
				e = append(e, jp.Slice{})
			} else {
				e = e.Slice(f.Ints[0], f.Ints[1:]...)
			}
		case 'F':
			e = e.Filter(f.Eq.Build())
		}
	}
	if e == nil {
		e = jp.X()
	}
	return e
}

func (v *ValD) goValue() any {
	switch v.Kind {
	case 'n':
		return nil
	case '0':
		return jp.Nothing
	case 'b':
		return v.B
	case 'i':
		return v.I
	case 'd':
		return v.F
	case 's':
		return v.S
	case 'l':
		out := make([]any, 0, len(v.L))
		for i := range v.L {
			out = append(out, v.L[i].goValue())
		}
		return out
	}
	return nil
}

func (v *ValD) Build() *jp.Equation {
	switch v.Kind {
	case 'n':
		return jp.ConstNil()
	case '0':
		return jp.ConstNothing()
	case 'b':
		return jp.ConstBool(v.B)
	case 'i':
		return jp.ConstInt(v.I)
	case 'd':
		return jp.ConstFloat(v.F)
	case 's':
		return jp.ConstString(v.S)
	case 'l':
		return jp.ConstList(v.goValue().([]any))
	case 'r':
		return jp.ConstRegex(regexp.MustCompile(v.S))
	}
	panic("bad value kind")
}

func (e *EqD) Build() *jp.Equation {
	if e.Op == "" {
		return e.Val.Build()
	}
	switch e.Op {
	case "not":
		return jp.Not(e.L.Build())
	case "get":
		return jp.Get(e.L.Val.X.Build())
	case "length":
		return jp.Length(e.L.Val.X.Build())
	case "count":
		return jp.Count(e.L.Val.X.Build())
	}
	return binCtor[e.Op](e.L.Build(), e.R.Build())
}

// ---- wire format (see lean/OjgVerif/JPText/Driver.lean) ------------------------------------------------

func fmtFloat(f float64) string { return strconv.FormatFloat(f, 'g', -1, 64) }

func (x ExprD) Wire(sb *strings.Builder) {
	fmt.Fprintf(sb, "X %d", len(x))
	for _, f := range x {
		sb.WriteByte(' ')
		switch f.Kind {
		case 'R', 'A', 'W', 'D', 'P':
			sb.WriteByte(f.Kind)
		case 'C':
			sb.WriteString("C " + lib.HexF([]byte(f.Key)))
		case 'N':
			fmt.Fprintf(sb, "N %d", f.N)
		case 'U':
			fmt.Fprintf(sb, "U %d", len(f.Mems))
			for _, m := range f.Mems {
				switch t := m.(type) {
				case string:
					sb.WriteString(" K " + lib.HexF([]byte(t)))
				case int64:
					fmt.Fprintf(sb, " I %d", t)
				}
			}
		case 'S':
			n := len(f.Ints)
			fmt.Fprintf(sb, "S %d", n)
			for _, i := range f.Ints {
				fmt.Fprintf(sb, " %d", i)
			}
		case 'F':
			sb.WriteString("F ")
			f.Eq.Wire(sb)
		}
	}
}

func (e *EqD) Wire(sb *strings.Builder) {
	if e.Op == "" {
		sb.WriteString("V ")
		e.Val.Wire(sb)
		return
	}
	if e.R == nil {
		sb.WriteString("U1 " + e.Op + " ")
		e.L.Wire(sb)
		return
	}
	sb.WriteString("B2 " + e.Op + " ")
	e.L.Wire(sb)
	sb.WriteByte(' ')
	e.R.Wire(sb)
}

func (v *ValD) Wire(sb *strings.Builder) {
	switch v.Kind {
	case 'n', '0':
		sb.WriteByte(v.Kind)
	case 'b':
		if v.B {
			sb.WriteByte('t')
		} else {
			sb.WriteByte('f')
		}
	case 'i':
		fmt.Fprintf(sb, "i %d", v.I)
	case 'd':
		sb.WriteString("d " + lib.HexF([]byte(fmtFloat(v.F))))
	case 's':
		sb.WriteString("s " + lib.HexF([]byte(v.S)))
	case 'r':
		sb.WriteString("r " + lib.HexF([]byte(v.S)))
	case 'l':
		fmt.Fprintf(sb, "l %d", len(v.L))
		for i := range v.L {
			sb.WriteByte(' ')
			v.L[i].Wire(sb)
		}
	case 'x':
		sb.WriteString("x ")
		v.X.Wire(sb)
	}
}

func wireOf(w interface{ Wire(*strings.Builder) }) string {
	var sb strings.Builder
	w.Wire(&sb)
	return sb.String()
}

// ---- reading the wire format back (replay, corpus) -------------------------------------------------------

type wireReader struct {
	t []string
	i int
}

func (r *wireReader) next() string {
	if r.i >= len(r.t) {
		panic("wire: truncated")
	}
	s := r.t[r.i]
	r.i++
	return s
}

func (r *wireReader) int() int {
	n, err := strconv.ParseInt(r.next(), 10, 64)
	if err != nil {
		panic("wire: bad int")
	}
	return int(n)
}

func (r *wireReader) hex() string {
	b, err := lib.UnhexF(r.next())
	if err != nil {
		panic("wire: bad hex")
	}
	return string(b)
}

func (r *wireReader) expr() ExprD {
	if r.next() != "X" {
		panic("wire: expected X")
	}
	n := r.int()
	x := make(ExprD, 0, n)
	for k := 0; k < n; k++ {
		t := r.next()
		f := FragD{Kind: t[0]}
		switch t {
		case "R", "A", "W", "D", "P":
		case "C":
			f.Key = r.hex()
		case "N":
			f.N = r.int()
		case "U":
			m := r.int()
			for j := 0; j < m; j++ {
				switch r.next() {
				case "K":
					f.Mems = append(f.Mems, r.hex())
				case "I":
					f.Mems = append(f.Mems, int64(r.int()))
				default:
					panic("wire: bad member")
				}
			}
		case "S":
			m := r.int()
			for j := 0; j < m; j++ {
				f.Ints = append(f.Ints, r.int())
			}
		case "F":
			f.Eq = r.eqn()
		default:
			panic("wire: bad fragment " + t)
		}
		x = append(x, f)
	}
	return x
}

func (r *wireReader) eqn() *EqD {
	switch r.next() {
	case "V":
		return &EqD{Val: r.val()}
	case "U1":
		op := r.next()
		return &EqD{Op: op, L: r.eqn()}
	case "B2":
		op := r.next()
		l := r.eqn()
		return &EqD{Op: op, L: l, R: r.eqn()}
	}
	panic("wire: bad equation")
}

func (r *wireReader) val() *ValD {
	t := r.next()
	switch t {
	case "n", "0":
		return &ValD{Kind: t[0]}
	case "t":
		return &ValD{Kind: 'b', B: true}
	case "f":
		return &ValD{Kind: 'b'}
	case "i":
		return &ValD{Kind: 'i', I: int64(r.int())}
	case "d":
		txt := r.hex()
		f, _ := strconv.ParseFloat(txt, 64)
		return &ValD{Kind: 'd', F: f}
	case "s":
		return &ValD{Kind: 's', S: r.hex()}
	case "r":
		return &ValD{Kind: 'r', S: r.hex()}
	case "x":
		return &ValD{Kind: 'x', X: r.expr()}
	case "l":
		n := r.int()
		v := &ValD{Kind: 'l'}
		for k := 0; k < n; k++ {
			v.L = append(v.L, *r.val())
		}
		return v
	}
	panic("wire: bad value " + t)
}

func parseWireExpr(s string) (x ExprD, err error) {
	defer func() {
		if r := recover(); r != nil {
			err = fmt.Errorf("%v", r)
		}
	}()
	r := &wireReader{t: strings.Fields(s)}
	x = r.expr()
	if r.i != len(r.t) {
		panic("wire: trailing tokens")
	}
	return
}

func parseWireEqn(s string) (e *EqD, err error) {
	defer func() {
		if r := recover(); r != nil {
			err = fmt.Errorf("%v", r)
		}
	}()
	r := &wireReader{t: strings.Fields(s)}
	e = r.eqn()
	if r.i != len(r.t) {
		panic("wire: trailing tokens")
	}
	return
}

// ---- the structure of real jp objects (unexported fields read through reflect) ---------------------------

// templateOf returns Script.template.
func templateOf(s *jp.Script) []any {
	rv := reflect.ValueOf(s).Elem().FieldByName("template")
	return *(*[]any)(unsafe.Pointer(rv.UnsafeAddr()))
}

// opInfo reads name and code of a *jp.op held in an interface.
func opInfo(v any) (name string, code byte, cnt int, ok bool) {
	rv := reflect.ValueOf(v)
	if rv.Kind() != reflect.Ptr || rv.IsNil() || rv.Elem().Kind() != reflect.Struct || rv.Elem().Type().Name() != "op" {
		return "", 0, 0, false
	}
	el := rv.Elem()
	return el.FieldByName("name").String(), byte(el.FieldByName("code").Uint()), int(el.FieldByName("cnt").Uint()), true
}

// canonTemplate renders a script template with the normalisations of Spec.lean: group operators
// dropped, values rendered structurally.
func canonTemplate(t []any) string {
	var sb strings.Builder
	for _, it := range t {
		if name, code, _, ok := opInfo(it); ok {
			if code == '(' {
				continue
			}
			fmt.Fprintf(&sb, "o%s/%c ", name, code)
			continue
		}
		sb.WriteString("v")
		canonValue(&sb, it)
		sb.WriteByte(' ')
	}
	return sb.String()
}

func canonValue(sb *strings.Builder, v any) {
	switch t := v.(type) {
	case nil:
		sb.WriteString("n")
	case bool:
		fmt.Fprintf(sb, "b%v", t)
	case int64:
		fmt.Fprintf(sb, "i%d", t)
	case float64:
		fmt.Fprintf(sb, "d%016x", math.Float64bits(t))
	case string:
		fmt.Fprintf(sb, "s%s", lib.HexF([]byte(t)))
	case []any:
		sb.WriteString("l[")
		for _, e := range t {
			canonValue(sb, e)
			sb.WriteByte(',')
		}
		sb.WriteString("]")
	case jp.Expr:
		sb.WriteString("x[" + canonExpr(t) + "]")
	case *regexp.Regexp:
		fmt.Fprintf(sb, "r%s", lib.HexF([]byte(t.String())))
	default:
		if v == any(jp.Nothing) {
			sb.WriteString("0")
		} else {
			fmt.Fprintf(sb, "?%T", v)
		}
	}
}

const maxEnd = 2147483647

// canonExpr renders an expression with the normalisations of Spec.lean.
func canonExpr(x jp.Expr) string {
	var sb strings.Builder
	for _, f := range x {
		switch t := f.(type) {
		case jp.Root:
			sb.WriteString("R ")
		case jp.At:
			sb.WriteString("A ")
		case jp.Child:
			sb.WriteString("C" + lib.HexF([]byte(t)) + " ")
		case jp.Nth:
			fmt.Fprintf(&sb, "N%d ", int(t))
		case jp.Wildcard:
			sb.WriteString("W ")
		case jp.Descent:
			sb.WriteString("D ")
		case jp.Union:
			sb.WriteString("U")
			for _, m := range t {
				switch tm := m.(type) {
				case string:
					sb.WriteString("K" + lib.HexF([]byte(tm)) + ",")
				case int64:
					fmt.Fprintf(&sb, "I%d,", tm)
				default:
					fmt.Fprintf(&sb, "?%T,", m)
				}
			}
			sb.WriteByte(' ')
		case jp.Slice:
			s := []int(t)
			switch {
			case len(s) == 0:
				s = []int{0, maxEnd}
			case len(s) == 1:
				s = []int{s[0], maxEnd}
			case len(s) > 3:
				s = s[:3]
			}
			sb.WriteString("S")
			for _, n := range s {
				fmt.Fprintf(&sb, "%d,", n)
			}
			sb.WriteByte(' ')
		case *jp.Filter:
			sb.WriteString("F{" + canonTemplate(templateOf(&t.Script)) + "} ")
		default:
			fmt.Fprintf(&sb, "?%T ", f)
		}
	}
	return sb.String()
}

// ---- data to evaluate on ----------------------------------------------------------------------------------

// collect gathers the keys, strings and small integers an object mentions.
type mentions struct {
	keys map[string]bool
	ints map[int64]bool
	strs map[string]bool
}

func newMentions() *mentions {
	return &mentions{keys: map[string]bool{}, ints: map[int64]bool{}, strs: map[string]bool{}}
}

func (m *mentions) expr(x ExprD) {
	for _, f := range x {
		switch f.Kind {
		case 'C':
			m.keys[f.Key] = true
		case 'U':
			for _, u := range f.Mems {
				if s, ok := u.(string); ok {
					m.keys[s] = true
				}
			}
		case 'F':
			m.eqn(f.Eq)
		}
	}
}

func (m *mentions) eqn(e *EqD) {
	if e == nil {
		return
	}
	if e.Op == "" {
		m.val(e.Val)
		return
	}
	m.eqn(e.L)
	m.eqn(e.R)
}

func (m *mentions) val(v *ValD) {
	switch v.Kind {
	case 'i':
		m.ints[v.I] = true
	case 's':
		m.strs[v.S] = true
	case 'x':
		m.expr(v.X)
	case 'l':
		for i := range v.L {
			m.val(&v.L[i])
		}
	}
}

func sortedKeys(m map[string]bool) []string {
	out := make([]string, 0, len(m))
	for k := range m {
		out = append(out, k)
	}
	sort.Strings(out)
	return out
}

// dataTrees builds data that exercises the mentioned keys; deterministic in (mentions, seed).
func dataTrees(m *mentions, seed uint64, n int) []any {
	keys := sortedKeys(m.keys)
	// the replacement-character variants make a lossy key visible
	for _, k := range append([]string{}, keys...) {
		if v := strings.ToValidUTF8(k, "�"); v != k {
			keys = append(keys, v)
		}
	}
	keys = append(keys, "a", "b", "x")
	strs := append(sortedKeys(m.strs), "a", "", "abc")
	var ints []int64
	for i := range m.ints {
		if i > -1000 && i < 1000 {
			ints = append(ints, i, i+1)
		}
	}
	sort.Slice(ints, func(i, j int) bool { return ints[i] < ints[j] })
	ints = append(ints, 0, 1, 2, 3, -1)
	r := lib.NewRng(seed)
	var gen func(depth int) any
	gen = func(depth int) any {
		k := r.Intn(10)
		if depth >= 4 && k < 6 {
			k = 6 + r.Intn(4)
		}
		switch {
		case k < 3:
			o := map[string]any{}
			for _, key := range keys {
				if r.Intn(3) != 0 {
					o[key] = gen(depth + 1)
				}
			}
			return o
		case k < 6:
			a := make([]any, r.Intn(6))
			for i := range a {
				a[i] = gen(depth + 1)
			}
			return a
		case k == 6:
			return lib.Pick(r, ints)
		case k == 7:
			return lib.Pick(r, strs)
		case k == 8:
			return lib.Pick(r, []any{true, false, nil})
		default:
			return lib.Pick(r, []any{1.5, 2.0, -0.5, 3.0})
		}
	}
	out := make([]any, 0, n+2)
	// one tree that has every key at two levels and arrays long enough for the indexes
	full := map[string]any{}
	for _, key := range keys {
		inner := map[string]any{}
		for _, k2 := range keys {
			inner[k2] = []any{int64(1), "a", true, 2.5, map[string]any{"a": int64(3)}}
		}
		full[key] = inner
	}
	out = append(out, full, []any{full, int64(1), int64(2), "a", []any{int64(1), int64(2), int64(3)}, true, 2.5, nil})
	for i := 0; i < n; i++ {
		out = append(out, gen(0))
	}
	return out
}
