package main

// Sub-check C06jp: the JSONPath and script parsers on MALFORMED text.
//
// Every text goes to every text-consuming entry point of ohler55/ojg/jp under recover and under a
// watchdog. THE ORACLE (violation):
//
//	panic:<entry>          a plain entry point lets a panic escape, or the error it returns / the value a Must*
//	                       variant panics with is a runtime fault (runtime.Error: index out of range, nil
//	                       dereference, slice bounds, failed type assertion …) instead of a parse error
//	hang:<entry>           no answer within the watchdog time
//	must-mismatch:<entry>  a Must* variant does not panic exactly when the plain variant returns an error, or
//	                       with another message, or builds another object
//
// THE TIE (disagreement): accept/reject, and the printed form of what was read, equal the Lean model of the
// parser (lean/OjgVerif/JPText/Parse.lean) — judgeText, shared with C14.

import (
	"fmt"
	"hash/fnv"
	"os"
	"regexp"
	"runtime"
	"sort"
	"strings"
	"sync/atomic"
	"time"

	"github.com/ohler55/ojg/jp"
	"verif/harness/lib"
)

const watchdog = 2 * time.Second

// one text-consuming entry point
type entry struct {
	name  string
	must  bool
	plain string // for a Must* variant: the entry it must agree with
	call  func(text string) (printed string, err error)
}

var entries = []entry{
	{name: "jp.ParseString", call: func(t string) (string, error) {
		x, err := jp.ParseString(t)
		if err != nil {
			return "", err
		}
		return x.String() + "\x00" + x.BracketString(), nil
	}},
	{name: "jp.Parse", call: func(t string) (string, error) {
		x, err := jp.Parse([]byte(t))
		if err != nil {
			return "", err
		}
		return x.String() + "\x00" + x.BracketString(), nil
	}},
	{name: "jp.MustParseString", must: true, plain: "jp.ParseString", call: func(t string) (string, error) {
		x := jp.MustParseString(t)
		return x.String() + "\x00" + x.BracketString(), nil
	}},
	{name: "jp.MustParse", must: true, plain: "jp.Parse", call: func(t string) (string, error) {
		x := jp.MustParse([]byte(t))
		return x.String() + "\x00" + x.BracketString(), nil
	}},
	{name: "jp.NewScript", call: func(t string) (string, error) {
		s, err := jp.NewScript(t)
		if err != nil {
			return "", err
		}
		return s.String(), nil
	}},
	{name: "jp.MustNewScript", must: true, plain: "jp.NewScript", call: func(t string) (string, error) {
		return jp.MustNewScript(t).String(), nil
	}},
	{name: "jp.MustParseEquation", must: true, plain: "jp.NewScript", call: func(t string) (string, error) {
		return jp.MustParseEquation(t).Script().String(), nil
	}},
	{name: "jp.NewFilter", call: func(t string) (string, error) {
		f, err := jp.NewFilter(t)
		if err != nil {
			return "", err
		}
		return f.String(), nil
	}},
	{name: "jp.MustNewFilter", must: true, plain: "jp.NewFilter", call: func(t string) (string, error) {
		return jp.MustNewFilter(t).String(), nil
	}},
}

type outcome struct {
	done    bool
	printed string
	errMsg  string // error returned
	isErr   bool
	panicV  string // value of an escaped panic
	isPanic bool
	fault   bool // the error / panic value is a runtime fault
}

func isFaultMsg(m string) bool {
	return strings.HasPrefix(m, "runtime error:") || strings.Contains(m, "interface conversion:")
}

// runEntries calls every entry on the text in one goroutine; the watchdog covers the whole series, the entry
// in progress when it expires is the one that hangs.
func runEntries(text string, limit time.Duration) (res []outcome, hung int) {
	res = make([]outcome, len(entries))
	var progress int32
	finished := make(chan struct{})
	go func() {
		defer close(finished)
		for i := range entries {
			atomic.StoreInt32(&progress, int32(i))
			func() {
				o := &res[i]
				defer func() {
					if r := recover(); r != nil {
						o.isPanic = true
						o.panicV = fmt.Sprintf("%v", r)
						if _, ok := r.(runtime.Error); ok {
							o.fault = true
						}
						if isFaultMsg(o.panicV) {
							o.fault = true
						}
					}
					o.done = true
				}()
				p, err := entries[i].call(text)
				if err != nil {
					o.isErr = true
					o.errMsg = err.Error()
					o.fault = isFaultMsg(o.errMsg)
				} else {
					o.printed = p
				}
			}()
		}
	}()
	timer := time.NewTimer(limit)
	defer timer.Stop()
	select {
	case <-finished:
		return res, -1
	case <-timer.C:
		h := int(atomic.LoadInt32(&progress))
		cp := make([]outcome, len(res))
		for i := 0; i < h; i++ { // the goroutine may still write res[h]
			cp[i] = res[i]
		}
		return cp, h
	}
}

var reIndex = regexp.MustCompile(`index out of range \[(\d+)\] with length (\d+)`)
var reProcAfterClose = regexp.MustCompile(`(?s)\)\].*\[ *\(`)
var reSlice = regexp.MustCompile(`slice bounds out of range \[(\d+):(\d+)\]`)

// faultSite recognises the five places of jp/parse.go where the pinned tree reports malformed input through a
// runtime fault (known finding C06jp-fault-as-error): the buffer ends right after an opening quote (readStr),
// right after the `/` that opens a regex (readRegex), right after a backslash in a quoted string (readEscStr),
// right after a function or operator name (readOpArgs); a `)]` stands before the `[(` (or `[ (`) of a procedure
// (readProc). Anything else is not known.
func faultSite(entryName, text, msg string) string {
	buf := text
	if strings.Contains(entryName, "Filter") {
		if len(buf) <= 3 {
			return ""
		}
		buf = buf[2 : len(buf)-1]
	}
	if m := reIndex.FindStringSubmatch(msg); m != nil {
		if m[1] != m[2] || m[1] != fmt.Sprint(len(buf)) || len(buf) == 0 {
			return ""
		}
		last := buf[len(buf)-1]
		switch {
		case last == '\\':
			return "readEscStr"
		case 'a' <= last && last <= 'z':
			return "readOpArgs"
		}
		return ""
	}
	if m := reSlice.FindStringSubmatch(msg); m != nil {
		var a, b int
		fmt.Sscan(m[1], &a)
		fmt.Sscan(m[2], &b)
		if a == b+1 && a == len(buf) && len(buf) > 0 {
			switch buf[len(buf)-1] {
			case '\'', '"':
				return "readStr"
			case '/':
				return "readRegex"
			}
		}
		if a > b && reProcAfterClose.MatchString(buf) {
			return "readProc"
		}
	}
	return ""
}

func c06Finding(class, what string, c *Case, extra map[string]any) {
	r := map[string]any{"case": c.line(), "stream": c.Stream, "text": trunc(string(c.Text), 300)}
	for k, v := range extra {
		r[k] = v
	}
	f := lib.Finding{Kind: "violation", Class: class, What: what, Replay: r}
	// the known finding is decided by the semantic predicate faultSite (the class then names the place)
	if id, _ := extra["known_id"].(string); id != "" && lib.HasKnown(knownList, id) {
		f.Kind = "known"
		f.KnownID = id
	}
	rep.Add(f)
}

// judgeC06: the oracle of C06jp on one text (the tie is judgeText).
func (w *work) judgeC06() {
	c := w.c
	text := string(c.Text)
	res, hung := runEntries(text, watchdog)
	if hung >= 0 {
		// a loaded machine can stall a goroutine for seconds: a hang is reported only when the text,
		// run again on its own, does not answer within ten times the watchdog either
		res, hung = runEntries(text, 10*watchdog)
	}
	if hung >= 0 {
		c06Finding("hang:"+entries[hung].name, fmt.Sprintf("%s does not answer within %v on %s", entries[hung].name, watchdog, q(c.Text)), c, nil)
		rep.Count("c06.hang", 1)
		return
	}
	byName := map[string]*outcome{}
	for i := range entries {
		byName[entries[i].name] = &res[i]
	}
	for i := range entries {
		e, o := &entries[i], &res[i]
		switch {
		case !e.must && o.isPanic:
			c06Finding("panic:"+e.name, fmt.Sprintf("%s lets a panic escape on %s: %s", e.name, q(c.Text), trunc(o.panicV, 200)), c, map[string]any{"panic": o.panicV})
		case o.fault:
			m := o.errMsg
			if o.isPanic {
				m = o.panicV
			}
			cls := "panic:" + e.name
			extra := map[string]any{"fault": m}
			if site := faultSite(e.name, text, m); site != "" {
				cls += ":" + site
				extra["known_id"] = "C06jp-fault-as-error"
			}
			c06Finding(cls, fmt.Sprintf("%s reports %s through a runtime fault, not a parse error: %s", e.name, q(c.Text), trunc(m, 200)), c, extra)
		}
		if !e.must {
			rep.Count("c06."+e.name+"."+map[bool]string{true: "rejected", false: "accepted"}[o.isErr || o.isPanic], 1)
			continue
		}
		p := byName[e.plain]
		switch {
		case p.isPanic:
			// already reported for the plain variant
		case p.isErr != o.isPanic:
			c06Finding("must-mismatch:"+e.name, fmt.Sprintf("%s error=%v (%s) but %s panics=%v (%s) on %s", e.plain, p.isErr, trunc(p.errMsg, 120), e.name, o.isPanic, trunc(o.panicV, 120), q(c.Text)), c, nil)
		case p.isErr && p.errMsg != o.panicV:
			c06Finding("must-mismatch:"+e.name, fmt.Sprintf("%s returns %q, %s panics with %q on %s", e.plain, trunc(p.errMsg, 160), e.name, trunc(o.panicV, 160), q(c.Text)), c, nil)
		case !p.isErr && p.printed != o.printed:
			c06Finding("must-mismatch:"+e.name, fmt.Sprintf("%s and %s build different objects from %s: %q / %q", e.plain, e.name, q(c.Text), trunc(p.printed, 120), trunc(o.printed, 120)), c, nil)
		}
	}
	// corpus: texts that must be rejected (with a parse error: a fault is reported above)
	for i := range entries {
		fam := "X"
		switch {
		case strings.Contains(entries[i].name, "Filter"):
			fam = "F"
		case strings.Contains(entries[i].name, "Script") || strings.Contains(entries[i].name, "Equation"):
			fam = "S"
		}
		if strings.Contains(c.Reject, fam) && !res[i].isErr && !res[i].isPanic {
			c06Finding("corpus-accepted:"+entries[i].name, fmt.Sprintf("%s accepts %s, which the corpus lists as malformed", entries[i].name, q(c.Text)), c, nil)
		}
	}
	// the two spellings of the same entry point
	a, b := byName["jp.ParseString"], byName["jp.Parse"]
	if a.isErr != b.isErr || a.errMsg != b.errMsg || a.printed != b.printed {
		c06Finding("must-mismatch:jp.Parse", "jp.ParseString and jp.Parse differ on "+q(c.Text), c, nil)
	}
}

// ---- streams ---------------------------------------------------------------------------------------------------

// punctuation, letters and digits of the grammar
var c06Alphabet = []byte("$@.[]()?*,:'\"\\-+!=<>&|~01aeux/ ")

// bytes used for single-byte insertions and replacements: the alphabet plus NUL, DEL, bytes >= 0x80, the other
// letters the parser looks at
var c06Edit = []byte("$@.[]()?*,:'\"\\-+!=<>&|~01aeux/ \x00\x7f\x80\xc3\xff9NtnE#")

type textSet struct {
	seen map[string]struct{}
	list []string
}

func (s *textSet) add(t string) {
	if _, ok := s.seen[t]; ok {
		return
	}
	s.seen[t] = struct{}{}
	s.list = append(s.list, t)
}

// validTexts: texts the parsers accept — the hand-written list and the corpus of C14, and what the enumerated
// object streams of C14 print (String, BracketString, Equation/Script/Filter String). A fixed hash-selected
// subset of size about n.
func validTexts(n int) []string {
	all := &textSet{seen: map[string]struct{}{}}
	emit := func(c Case) {
		defer func() { _ = recover() }()
		switch c.Kind {
		case "expr":
			x := c.X.Build()
			all.add(x.String())
			all.add(x.BracketString())
		case "eqn":
			e := c.E.Build()
			all.add(e.String())
			all.add(e.Script().String())
			all.add(e.Filter().String())
		}
	}
	if data, err := os.ReadFile("corpus/C14.txt"); err == nil {
		for _, line := range strings.Split(string(data), "\n") {
			line = strings.TrimSpace(line)
			if line == "" || strings.HasPrefix(line, "#") {
				continue
			}
			if b, err := lib.UnhexF(strings.Fields(line)[0]); err == nil {
				if c, err := parseCaseLine(string(b)); err == nil {
					emit(*c)
				}
			}
		}
	}
	saveEx := rep.Exhaustive
	streamFrags(emit, false)
	streamNums(emit, false)
	streamConsts(emit, false)
	enumTrees(1, binOpNames, true, func(i int) *EqD { return eGet(atKey(string(rune('a' + i)))) }, func(t *EqD) { emit(Case{Kind: "eqn", E: t}) })
	enumTrees(2, []string{"mult", "add", "sub", "eq", "and", "or", "in", "match", "rx"}, true, func(i int) *EqD { return vI(int64(i + 1)) }, func(t *EqD) {
		emit(Case{Kind: "eqn", E: t})
		emit(Case{Kind: "expr", X: ExprD{fR(), fC("list"), fF(t), fC("x")}})
	})
	rep.Exhaustive = saveEx
	var valid []string
	for _, t := range handTexts {
		all.add(t)
	}
	for _, t := range all.list {
		_, e1 := jp.ParseString(t)
		_, e2 := jp.NewScript(t)
		_, e3 := jp.NewFilter(t)
		if (e1 == nil || e2 == nil || e3 == nil) && len(t) > 0 && len(t) <= 80 {
			valid = append(valid, t)
		}
	}
	sort.Strings(valid)
	if len(valid) <= n {
		return valid
	}
	// a fixed subset: smallest hashes
	type hv struct {
		h uint64
		t string
	}
	hs := make([]hv, len(valid))
	for i, t := range valid {
		h := fnv.New64a()
		h.Write([]byte(t))
		hs[i] = hv{h.Sum64(), t}
	}
	sort.Slice(hs, func(i, j int) bool { return hs[i].h < hs[j].h })
	out := make([]string, n)
	for i := range out {
		out[i] = hs[i].t
	}
	sort.Strings(out)
	return out
}

func streamC06(emit func(Case), r *lib.Rng, full bool) {
	e := func(stream string, b []byte) {
		emit(Case{Kind: "c06", Text: append([]byte{}, b...), Stream: stream})
	}
	on := func(name string) bool {
		sel := os.Getenv("VERIF_STREAMS")
		return sel == "" || strings.Contains(","+sel+",", ","+name+",")
	}
	// (a) every byte string up to length 3 (4) over the alphabet
	maxLen := 3
	if full {
		maxLen = 4
	}
	if on("enum") {
		var rec func(b []byte)
		rec = func(b []byte) {
			e("c06_enum", b)
			if len(b) == maxLen {
				return
			}
			for _, c := range c06Alphabet {
				rec(append(b, c))
			}
		}
		rec(nil)
		// the same inside the brackets of a filter and of a script, where most of the grammar lives
		inner := 2
		if full {
			inner = 3
		}
		var rec2 func(b []byte)
		rec2 = func(b []byte) {
			e("c06_enum_filter", append(append([]byte("$[?("), b...), ")]"...))
			e("c06_enum_filter", append(append([]byte("[?"), b...), ']'))
			e("c06_enum_filter", append(append([]byte("(@.a "), b...), ')'))
			if len(b) == inner {
				return
			}
			for _, c := range c06Alphabet {
				rec2(append(b, c))
			}
		}
		rec2(nil)
	}
	rep.Exhaustive = append(rep.Exhaustive, fmt.Sprintf("every byte string of length <= %d over the %d-symbol alphabet %q, and every string of length <= %d over it inside `$[?(…)]`, `[?…]`, `(@.a …)`, through all 9 entry points", maxLen, len(c06Alphabet), string(c06Alphabet), maxLen-1))
	// (b) the single-byte edit neighbourhood of valid texts
	if on("edit") {
		n := 70
		if full {
			n = 350
		}
		valid := validTexts(n)
		rep.Count("c06.valid_texts", int64(len(valid)))
		for _, t := range valid {
			b := []byte(t)
			e("c06_valid", b)
			for i := 0; i < len(b); i++ {
				e("c06_truncate", b[:i])
				e("c06_delete", append(append([]byte{}, b[:i]...), b[i+1:]...))
				for _, c := range c06Edit {
					if c != b[i] {
						m := append([]byte{}, b...)
						m[i] = c
						e("c06_replace", m)
					}
				}
			}
			for i := 0; i <= len(b); i++ {
				for _, c := range c06Edit {
					e("c06_insert", append(append(append([]byte{}, b[:i]...), c), b[i:]...))
				}
			}
		}
		rep.Exhaustive = append(rep.Exhaustive, fmt.Sprintf("every single-byte deletion, truncation, replacement and insertion (over %d bytes incl. NUL, DEL, >= 0x80) of %d valid texts (hand-written, C14 corpus, printed forms of the enumerated C14 objects)", len(c06Edit), len(valid)))
	}
	// (c) seeded random byte strings
	if on("rand") {
		n := 40000
		if full {
			n = 300000
		}
		for i := 0; i < n; i++ {
			l := r.Intn(65)
			if r.Intn(3) == 0 {
				l = r.Intn(9)
			}
			b := make([]byte, l)
			mode := r.Intn(3)
			for j := range b {
				switch {
				case mode == 0:
					b[j] = byte(r.Intn(256))
				case mode == 1 || r.Intn(8) != 0:
					b[j] = lib.Pick(r, c06Edit)
				default:
					b[j] = byte(r.Intn(256))
				}
			}
			if mode == 2 && r.Bool() { // a plausible frame around the noise
				b = append(append([]byte(lib.Pick(r, []string{"$", "$.a", "$[?(", "(", "[?(", "$['", "@.a == "})), b...), lib.Pick(r, []string{"", ")]", ")", "]", "']"})...)
			}
			e("c06_random", b)
		}
	}
}
