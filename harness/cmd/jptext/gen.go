package main

import (
	"math"
	"regexp"
	"sort"

	"verif/harness/lib"
)

// ---- small constructors of descriptions ------------------------------------------------------------------------

func fR() FragD           { return FragD{Kind: 'R'} }
func fA() FragD           { return FragD{Kind: 'A'} }
func fC(k string) FragD   { return FragD{Kind: 'C', Key: k} }
func fN(n int) FragD      { return FragD{Kind: 'N', N: n} }
func fW() FragD           { return FragD{Kind: 'W'} }
func fD() FragD           { return FragD{Kind: 'D'} }
func fU(ms ...any) FragD  { return FragD{Kind: 'U', Mems: ms} }
func fS(ns ...int) FragD  { return FragD{Kind: 'S', Ints: ns} }
func fF(e *EqD) FragD     { return FragD{Kind: 'F', Eq: e} }
func vI(i int64) *EqD     { return &EqD{Val: &ValD{Kind: 'i', I: i}} }
func vB(b bool) *EqD      { return &EqD{Val: &ValD{Kind: 'b', B: b}} }
func vS(s string) *EqD    { return &EqD{Val: &ValD{Kind: 's', S: s}} }
func vF(f float64) *EqD   { return &EqD{Val: &ValD{Kind: 'd', F: f}} }
func vNil() *EqD          { return &EqD{Val: &ValD{Kind: 'n'}} }
func vNothing() *EqD      { return &EqD{Val: &ValD{Kind: '0'}} }
func vRx(s string) *EqD   { return &EqD{Val: &ValD{Kind: 'r', S: s}} }
func vL(vs ...ValD) *EqD  { return &EqD{Val: &ValD{Kind: 'l', L: vs}} }
func eGet(x ExprD) *EqD   { return &EqD{Op: "get", L: &EqD{Val: &ValD{Kind: 'x', X: x}}} }
func eLen(x ExprD) *EqD   { return &EqD{Op: "length", L: &EqD{Val: &ValD{Kind: 'x', X: x}}} }
func eCount(x ExprD) *EqD { return &EqD{Op: "count", L: &EqD{Val: &ValD{Kind: 'x', X: x}}} }
func eNot(e *EqD) *EqD    { return &EqD{Op: "not", L: e} }
func eBin(op string, l, r *EqD) *EqD {
	return &EqD{Op: op, L: l, R: r}
}
func atKey(k string) ExprD { return ExprD{fA(), fC(k)} }

// ---- keys ----------------------------------------------------------------------------------------------------------

// one representative (or more) per class of tokenMap, jMap, eqMap and of the UTF-8 decoder
var keyAlphabet = []string{
	"a", "Z", "0", "_", "-", " ", ".", "[", "]", "'", "\"", "\\", "\n", "\t", "\b", "\x00", "\x01", "\x1f", "\x7f",
	"*", "$", "@", "#", "~", "|", ",", ":", "?", "(", ")", "/", "!", "=", "<", "&", "+", "%", "^", "{", ";",
	"é", "\xc3", "\xa9", "\u2028", "\u2029", "\ufffd", "\xe2", "\x80", "\xa8", "\xef", "\xbf", "\xff",
	"\U0001F600", "\xed\xa0\x80", "\xc0\x80", "\xf4\x90\x80\x80", "\xe0\x9f\xbf", "\u07ff", "\u0800",
}

var keyAlphabetSmall = []string{
	"a", "0", "-", " ", ".", "[", "'", "\"", "\\", "\n", "\x01", "\x7f", "*", "$", "é", "\xc3", "\u2028", "\ufffd", "\xe2", "\x80", "\xff",
}

func keyContexts(k string, all bool, emit func(Case)) {
	e := func(x ExprD) { emit(Case{Kind: "expr", X: x, Stream: "keys"}) }
	e(ExprD{fR(), fC(k)})
	e(ExprD{fC(k), fN(0)})
	e(ExprD{fR(), fF(eBin("eq", eGet(atKey(k)), vI(1)))})
	e(ExprD{fR(), fF(eBin("eq", eGet(atKey("a")), vS(k)))})
	e(ExprD{fR(), fU(k, "b")})
	if all {
		e(ExprD{fR(), fC(k), fC("z")})
		e(ExprD{fR(), fD(), fC(k)})
		e(ExprD{fR(), fC("a"), fC(k), fN(1)})
		e(ExprD{fR(), fU("b", k, int64(3))})
		e(ExprD{fA(), fC(k), fW()})
		emit(Case{Kind: "eqn", E: eBin("eq", eGet(atKey(k)), vS(k)), Stream: "keys"})
		emit(Case{Kind: "eqn", E: eBin("in", vS(k), vL(ValD{Kind: 's', S: k}, ValD{Kind: 'i', I: 1})), Stream: "keys"})
		if _, err := regexp.Compile(k); err == nil {
			emit(Case{Kind: "eqn", E: eBin("rx", eGet(atKey("a")), vRx(k)), Stream: "keys"})
		}
	}
}

func streamKeys(emit func(Case), full bool) {
	for b := 0; b < 256; b++ {
		keyContexts(string([]byte{byte(b)}), true, emit)
		keyContexts("a"+string([]byte{byte(b)}), true, emit)
		keyContexts(string([]byte{byte(b)})+"a", true, emit)
	}
	rep.Exhaustive = append(rep.Exhaustive, "all 256 single-byte keys (alone, after 'a', before 'a') in 13 positions (child, first child, after descent, filter path, string constant, union member, regex, …), both text forms")
	for _, a := range keyAlphabet {
		for _, b := range keyAlphabet {
			keyContexts(a+b, false, emit)
		}
	}
	rep.Exhaustive = append(rep.Exhaustive, "all ordered pairs over a 59-symbol class alphabet (quotes, backslash, control, DEL, every tokenMap class, valid/invalid/special UTF-8 sequences) as child key, first child, filter path key, string constant, union member")
	if full {
		for _, a := range keyAlphabetSmall {
			for _, b := range keyAlphabetSmall {
				for _, c := range keyAlphabetSmall {
					keyContexts(a+b+c, false, emit)
				}
			}
		}
		rep.Exhaustive = append(rep.Exhaustive, "all ordered triples over a 21-symbol class alphabet in the same positions")
	}
}

// ---- fragment sequences ------------------------------------------------------------------------------------------

func fragAlphabet() []FragD {
	return []FragD{fR(), fA(), fC("a"), fC("b c"), fN(1), fN(-4), fW(), fD(), fU("a", int64(1)), fS(1, 2), fS(0), fF(eBin("lt", eGet(ExprD{fA()}), vI(3)))}
}

func streamFrags(emit func(Case), full bool) {
	al := fragAlphabet()
	maxLen := 3
	if full {
		maxLen = 4
	}
	var rec func(x ExprD)
	rec = func(x ExprD) {
		emit(Case{Kind: "expr", X: append(ExprD{}, x...), Stream: "frags"})
		// the same path as an operand of a filter
		if len(x) > 0 && len(x) < 3 {
			emit(Case{Kind: "expr", X: ExprD{fR(), fF(eBin("eq", eGet(append(ExprD{}, x...)), vI(1)))}, Stream: "frags"})
		}
		if len(x) == maxLen {
			return
		}
		for _, f := range al {
			rec(append(x, f))
		}
	}
	rec(ExprD{})
	rep.Exhaustive = append(rep.Exhaustive, "every sequence of at most "+string(rune('0'+maxLen))+" fragments over 12 fragment kinds (root, current, token child, quoted child, index, negative index, wildcard, descent, union, slice, open slice, filter), both text forms, and as a filter operand")
}

// ---- integers ----------------------------------------------------------------------------------------------------------

func streamNums(emit func(Case), full bool) {
	ints := []int{0, 1, -1, 9, 10, -10, 99, 100, 2147483646, 2147483647, 2147483648, -2147483648, math.MaxInt64, math.MaxInt64 - 1, math.MinInt64, math.MinInt64 + 1,
		1000000000000000000, -999999999999999999, 12345678901234567}
	for _, i := range ints {
		emit(Case{Kind: "expr", X: ExprD{fR(), fN(i)}, Stream: "nums"})
		emit(Case{Kind: "expr", X: ExprD{fN(i), fC("a")}, Stream: "nums"})
		emit(Case{Kind: "expr", X: ExprD{fR(), fU(int64(i), "a")}, Stream: "nums"})
		emit(Case{Kind: "expr", X: ExprD{fR(), fU("a", int64(i))}, Stream: "nums"})
		emit(Case{Kind: "eqn", E: eBin("eq", eGet(atKey("a")), vI(int64(i))), Stream: "nums"})
		emit(Case{Kind: "eqn", E: eBin("sub", vI(int64(i)), vI(int64(i))), Stream: "nums"})
	}
	sl := []int{0, 1, -1, 5, -7, 2147483647, 2147483646, math.MaxInt64, math.MinInt64}
	emit(Case{Kind: "expr", X: ExprD{fR(), fS()}, Stream: "nums"})
	for _, a := range sl {
		emit(Case{Kind: "expr", X: ExprD{fR(), fS(a)}, Stream: "nums"})
		for _, b := range sl {
			emit(Case{Kind: "expr", X: ExprD{fR(), fS(a, b)}, Stream: "nums"})
			for _, c := range sl {
				emit(Case{Kind: "expr", X: ExprD{fR(), fS(a, b, c)}, Stream: "nums"})
				if full {
					emit(Case{Kind: "expr", X: ExprD{fR(), fS(a, b, c, a)}, Stream: "nums"})
				}
			}
		}
	}
	mems := []any{"a", "b c", "a'b", "a\\", "", "é", int64(0), int64(-1), int64(math.MaxInt64), int64(math.MinInt64)}
	emit(Case{Kind: "expr", X: ExprD{fR(), fU()}, Stream: "nums"})
	for _, a := range mems {
		emit(Case{Kind: "expr", X: ExprD{fR(), fU(a)}, Stream: "nums"})
		for _, b := range mems {
			emit(Case{Kind: "expr", X: ExprD{fR(), fU(a, b)}, Stream: "nums"})
			for _, c := range mems {
				emit(Case{Kind: "expr", X: ExprD{fR(), fU(a, b, c), fC("z")}, Stream: "nums"})
			}
		}
	}
	rep.Exhaustive = append(rep.Exhaustive, "index, slice (0-3(4) parts over 9 boundary values) and union (0-3 members over 10 values) families")
}

// ---- operators ---------------------------------------------------------------------------------------------------------

// enumTrees calls f with every equation tree that has exactly k operator nodes over the given binary
// operators (and `not` when withNot); leaves are made by leaf(i), i counting leaves left to right.
func enumTrees(k int, bin []string, withNot bool, leaf func(i int) *EqD, f func(*EqD)) {
	type shape struct {
		op   string
		l, r *shape
	}
	var build func(k int) []*shape
	memo := map[int][]*shape{}
	build = func(k int) []*shape {
		if s, ok := memo[k]; ok {
			return s
		}
		var out []*shape
		if k == 0 {
			out = []*shape{nil}
		} else {
			if withNot {
				for _, t := range build(k - 1) {
					out = append(out, &shape{op: "not", l: t})
				}
			}
			for i := 0; i < k; i++ {
				for _, l := range build(i) {
					for _, r := range build(k - 1 - i) {
						for _, op := range bin {
							out = append(out, &shape{op: op, l: l, r: r})
						}
					}
				}
			}
		}
		memo[k] = out
		return out
	}
	var inst func(s *shape, n *int) *EqD
	inst = func(s *shape, n *int) *EqD {
		if s == nil {
			*n++
			return leaf(*n - 1)
		}
		if s.op == "not" {
			return eNot(inst(s.l, n))
		}
		l := inst(s.l, n)
		return eBin(s.op, l, inst(s.r, n))
	}
	for _, s := range build(k) {
		n := 0
		f(inst(s, &n))
	}
}

func streamOps(emit func(Case), full bool) {
	constLeaf := func(i int) *EqD { return vI(int64(i + 1)) }
	pathLeaf := func(i int) *EqD { return eGet(atKey(string(rune('a' + i)))) }
	boolLeaf := func(i int) *EqD {
		if i%2 == 0 {
			return eGet(atKey(string(rune('a' + i))))
		}
		return vB(i%4 == 1)
	}
	e := func(t *EqD) {
		emit(Case{Kind: "eqn", E: t, Stream: "ops"})
	}
	// every operator alone, with each kind of leaf, and as a filter inside an expression
	for k := 1; k <= 2; k++ {
		for _, lf := range []func(int) *EqD{constLeaf, pathLeaf, boolLeaf} {
			enumTrees(k, binOpNames, true, lf, e)
		}
	}
	enumTrees(2, binOpNames, true, pathLeaf, func(t *EqD) {
		emit(Case{Kind: "expr", X: ExprD{fR(), fC("list"), fF(t), fC("x")}, Stream: "ops"})
	})
	rep.Exhaustive = append(rep.Exhaustive, "every equation tree with 1 or 2 operator nodes over the 19 binary constructors and Not (every ordered pair of operators in every nesting shape), with constant, path and mixed leaves; Equation, Script and Filter text")
	three := []string{"mult", "add", "sub", "eq", "and", "or", "in", "match"}
	if full {
		three = binOpNames
	}
	enumTrees(3, three, true, constLeaf, e)
	if full {
		enumTrees(3, []string{"mult", "divide", "add", "sub", "lt", "eq", "and", "or", "rx", "search"}, true, pathLeaf, e)
		enumTrees(4, []string{"mult", "add", "eq", "and", "match"}, true, constLeaf, e)
		rep.Exhaustive = append(rep.Exhaustive, "every tree with 3 operator nodes over all 19 binary constructors and Not; every tree with 4 nodes over one operator per precedence level, match and Not")
	} else {
		rep.Exhaustive = append(rep.Exhaustive, "every tree with 3 operator nodes over {*, +, -, ==, &&, ||, in, match, !} (every precedence level, both associativity-sensitive operators, a function, the unary operator)")
	}
	// functions and unary operators as operands
	ax := atKey("a")
	for _, op := range binOpNames {
		for _, fn := range []*EqD{eLen(ax), eCount(ax), eNot(eGet(ax)), eGet(ax), eBin("match", eGet(ax), vS("a.*")), eBin("search", eGet(ax), vS("b"))} {
			e(eBin(op, fn, vI(1)))
			e(eBin(op, vI(1), fn))
			e(eNot(eBin(op, fn, vI(1))))
			e(eBin(op, eBin(op, fn, vI(1)), fn))
		}
	}
	for _, fn := range []*EqD{eLen(ax), eCount(ax), eGet(ax), eNot(eGet(ax)), eNot(eNot(eGet(ax))), eNot(eLen(ax)), vI(3), vB(true)} {
		e(fn)
	}
}

// ---- constants -----------------------------------------------------------------------------------------------------------

func streamConsts(emit func(Case), full bool) {
	e := func(t *EqD) { emit(Case{Kind: "eqn", E: t, Stream: "consts"}) }
	ax := eGet(atKey("a"))
	floats := []float64{0, 1, -1, 2, 1.5, -0.5, 0.1, 100, 1e20, 1e21, 1e22, 1e-7, 1e-5, 123456.789, 5e-324, math.MaxFloat64, math.SmallestNonzeroFloat64,
		-1e100, 3.0000000000000004, 1 << 53, 1<<53 + 2, 0.000001, 0.0000001, 12345678901234567890, math.Copysign(0, -1), math.NaN(), math.Inf(1), math.Inf(-1),
		2.5e-10, 1.7976931348623157e308, 4.9e-324, 1e15, 1e16, 123456789012345680000}
	for _, f := range floats {
		e(eBin("eq", ax, vF(f)))
		e(eBin("divide", vI(7), vF(f)))
		e(eBin("in", ax, vL(ValD{Kind: 'd', F: f}, ValD{Kind: 'i', I: 2})))
		e(vF(f))
	}
	lists := [][]ValD{{}, {{Kind: 'i', I: 1}}, {{Kind: 'n'}, {Kind: '0'}, {Kind: 'b', B: true}, {Kind: 'b'}}, {{Kind: 's', S: "a,b"}, {Kind: 's', S: "]"}, {Kind: 's', S: "'"}},
		{{Kind: 'l', L: []ValD{{Kind: 'i', I: 1}, {Kind: 'l', L: []ValD{{Kind: 's', S: "x"}}}}}, {Kind: 'i', I: -2}}, {{Kind: 'l'}}, {{Kind: 'i', I: 1}, {Kind: 'l'}},
		{{Kind: 'd', F: 2.5}, {Kind: 'd', F: 1e21}}, {{Kind: 'i', I: math.MinInt64}, {Kind: 'i', I: math.MaxInt64}}}
	for _, l := range lists {
		e(eBin("in", ax, vL(l...)))
		e(eBin("in", vI(1), vL(l...)))
		e(eBin("eq", vL(l...), ax))
		e(vL(l...))
	}
	regexes := []string{"", "a", "a.*", "^a$", "(?i)expected", "a/b", `a\/b`, `a\\`, "a\tb", "a\nb", `\d+`, `[a-z]+`, "'", "\"", `\.`, "é", "\u2028", "a b", "a|b", `\x41`, "a\x01", "a\x7f", `[/]`, `\\/`}
	for _, r := range regexes {
		if _, err := regexp.Compile(r); err != nil {
			continue
		}
		e(eBin("rx", ax, vRx(r)))
		e(eBin("rx", vS("abc"), vRx(r)))
		e(eBin("and", eBin("rx", ax, vRx(r)), vB(true)))
		e(vRx(r))
	}
	for _, v := range []*EqD{vNil(), vNothing(), vB(true), vB(false), vS(""), vS("Nothing"), vS("true"), vI(0)} {
		e(v)
		e(eBin("eq", ax, v))
		e(eBin("neq", v, ax))
		e(eNot(v))
		e(eBin("has", ax, v))
		e(eBin("exists", ax, v))
		e(eBin("empty", ax, v))
	}
	// paths as operands
	paths := []ExprD{{fA()}, {fR()}, {fA(), fC("a"), fN(0)}, {fR(), fC("a"), fW()}, {fA(), fD()}, {fA(), fD(), fC("a")}, {fA(), fS(1, 3)}, {fA(), fU("a", "b")},
		{fA(), fC("b c")}, {fA(), fC("a"), fF(eBin("gt", eGet(ExprD{fA()}), vI(1)))}, {fC("a")}, {fN(1)}, {}, {fW()}, {fA(), fA()}, {fA(), fC("a"), fR()}, {fD(), fC("a")}}
	for _, p := range paths {
		e(eGet(p))
		e(eLen(p))
		e(eCount(p))
		e(eBin("eq", eGet(p), vI(1)))
		e(eBin("eq", vI(1), eGet(p)))
		e(eBin("lt", eLen(p), eCount(p)))
		e(eNot(eGet(p)))
		e(eBin("match", eGet(p), vS("a")))
		emit(Case{Kind: "expr", X: ExprD{fR(), fF(eGet(p))}, Stream: "consts"})
	}
}

// ---- random objects ---------------------------------------------------------------------------------------------------

type objGen struct {
	r *lib.Rng
	// dirty: probability (in 1/64ths) of choosing a construct with a known deviation
	dirty int
}

var tokenKeys = []string{"a", "b", "key", "k1", "x_y", "é", "日本", "A-Z"[:1], "a#", "q%", "v:w", "n0", "~t", "z|"}
var oddKeys = []string{"b c", "a.b", "", "it's", "q\"r", "back\\slash", "tab\t", "nl\n", "\u2028", "[0]", "*", "$", "@", "a-b", "1+1", "x=y", "\x7f", "\x01", "a,b", "(p)", "�"}
var dirtyKeys = []string{"\xff", "a\xc3", "\xe2\x80"}

// risky: choose a construct of one of the two remaining known classes (no text form, regex text)
func (g *objGen) risky() bool { return g.r.Intn(64) < g.dirty }

// free: choose a construct that was a deviation of the pinned tree and is repaired now (descent before a
// bracket fragment, quote in a union member, invalid UTF-8, integral float, right operand of equal
// precedence, ! in front of an operator, operator in a function argument, empty list)
func (g *objGen) free() bool { return g.r.Intn(3) == 0 }

func (g *objGen) key() string {
	switch k := g.r.Intn(10); {
	case k < 6:
		return lib.Pick(g.r, tokenKeys)
	case k < 9 || !g.free():
		return lib.Pick(g.r, oddKeys)
	default:
		return lib.Pick(g.r, dirtyKeys)
	}
}

func (g *objGen) smallInt() int {
	switch g.r.Intn(8) {
	case 0:
		return -g.r.Intn(5) - 1
	case 1:
		return lib.Pick(g.r, []int{math.MaxInt64, 2147483647, math.MinInt64 + 1, 1000000})
	default:
		return g.r.Intn(6)
	}
}

// expr generates an expression; operand = it will be the operand of Get/Length/Count.
func (g *objGen) expr(depth int, operand bool) ExprD {
	var x ExprD
	switch k := g.r.Intn(16); {
	case operand && k < 12:
		x = append(x, fA())
	case operand && k < 15, k < 11:
		x = append(x, fR())
	case operand && g.risky():
		x = append(x, fC(lib.Pick(g.r, tokenKeys)))
	case operand:
		x = append(x, fA())
	case k < 12:
		x = append(x, fA())
	case k == 12:
		x = append(x, fC(g.key()))
	case k == 13:
		x = append(x, fN(g.smallInt()))
	case k == 14:
		x = append(x, fW())
	default:
		x = append(x, fD(), fC(lib.Pick(g.r, tokenKeys)))
	}
	n := g.r.Intn(5)
	if operand {
		n = g.r.Intn(3)
	}
	for i := 0; i < n; i++ {
		switch k := g.r.Intn(20); {
		case k < 7:
			x = append(x, fC(g.key()))
		case k < 10:
			x = append(x, fN(g.smallInt()))
		case k < 12:
			x = append(x, fW())
		case k == 12:
			// a descent is safe before a token child or a wildcard (dot form only)
			if g.free() {
				x = append(x, fD())
			} else if g.r.Bool() {
				x = append(x, fD(), fC(lib.Pick(g.r, tokenKeys)))
			} else {
				x = append(x, fD(), fW())
			}
		case k < 15:
			m := 2 + g.r.Intn(3)
			if g.risky() {
				m = g.r.Intn(2)
			}
			var ms []any
			for j := 0; j < m; j++ {
				if g.r.Bool() {
					ms = append(ms, int64(g.smallInt()))
				} else if g.free() {
					ms = append(ms, lib.Pick(g.r, []string{"it's", "back\\slash", "\xff", "a\xc3"}))
				} else {
					ms = append(ms, lib.Pick(g.r, []string{"a", "b c", "x.y", "é", "", "q\"r", "[0]"}))
				}
			}
			x = append(x, fU(ms...))
		case k < 18:
			var ns []int
			for j := g.r.Intn(4); j > 0; j-- {
				ns = append(ns, g.smallInt())
			}
			if len(ns) == 0 && g.r.Bool() {
				ns = []int{g.smallInt()}
			}
			x = append(x, fS(ns...))
		case k == 18 && g.risky():
			x = append(x, lib.Pick(g.r, []FragD{fR(), fA()}))
		default:
			if depth < 2 {
				x = append(x, fF(g.eqn(depth+1, 3, true, 99)))
			} else {
				x = append(x, fC(g.key()))
			}
		}
	}
	return x
}

var precOf = map[string]int{"eq": 3, "neq": 3, "lt": 3, "gt": 3, "lte": 3, "gte": 3, "or": 4, "and": 4, "add": 2, "sub": 2, "mult": 1, "divide": 1,
	"in": 3, "empty": 3, "rx": 3, "has": 3, "exists": 3, "match": 0, "search": 0}

func (g *objGen) constant() *EqD {
	switch g.r.Intn(12) {
	case 0:
		return vNil()
	case 1:
		return vNothing()
	case 2, 3:
		return vB(g.r.Bool())
	case 4, 5:
		return vS(lib.Pick(g.r, append(append([]string{}, tokenKeys...), oddKeys...)))
	case 6:
		if g.risky() {
			return vF(lib.Pick(g.r, []float64{math.NaN(), math.Inf(1), math.Inf(-1)}))
		}
		if g.free() {
			return vF(lib.Pick(g.r, []float64{2, -3, 0, 1e6, math.Copysign(0, -1)}))
		}
		return vF(lib.Pick(g.r, []float64{1.5, -0.25, 1e21, 1e-7, 3.14159, 0.1, 2.5e10 + 0.5}))
	default:
		return vI(int64(g.smallInt()))
	}
}

func (g *objGen) listConst() *EqD {
	n := 1 + g.r.Intn(4)
	if g.r.Intn(8) == 0 {
		n = 0
	}
	var vs []ValD
	for i := 0; i < n; i++ {
		c := g.constant()
		vs = append(vs, *c.Val)
	}
	return vL(vs...)
}

// eqn generates an equation. maxPrec: only operators whose precedence number is below it may be the root
// (keeps a right operand from needing parentheses the printers do not write); allowNot: a `!` here does not
// swallow a following operator.
func (g *objGen) eqn(depth, budget int, allowNot bool, maxPrec int) *EqD {
	if budget <= 0 || g.r.Intn(4) == 0 {
		switch k := g.r.Intn(10); {
		case k < 5:
			return eGet(g.expr(depth+1, true))
		case k == 5:
			return eLen(g.expr(depth+1, true))
		case k == 6:
			return eCount(g.expr(depth+1, true))
		default:
			return g.constant()
		}
	}
	if g.r.Intn(8) == 0 && (allowNot || g.free()) {
		return eNot(g.eqn(depth, budget-1, true, 99))
	}
	var cands []string
	for _, op := range binOpNames {
		if precOf[op] < maxPrec || op == "match" || op == "search" {
			cands = append(cands, op)
		}
	}
	if len(cands) == 0 || g.r.Intn(16) == 0 {
		cands = binOpNames
		if !g.free() {
			return g.constant()
		}
	}
	op := lib.Pick(g.r, cands)
	switch op {
	case "match", "search":
		r := vS(lib.Pick(g.r, []string{"a.*", "b", "^x", "[a-c]+"}))
		if g.free() {
			r = g.eqn(depth, 1+g.r.Intn(2), true, 99)
		}
		return eBin(op, g.eqn(depth, budget-2, true, 99), r)
	case "in":
		return eBin(op, g.eqn(depth, budget-2, false, precOf[op]+1), g.listConst())
	case "rx":
		rx := lib.Pick(g.r, []string{"a.*", "^b", "(?i)x", `\d+`, "[a-z]"})
		if g.risky() {
			rx = lib.Pick(g.r, []string{"a/b", "a\tb"})
		}
		return eBin(op, g.eqn(depth, budget-2, false, precOf[op]+1), vRx(rx))
	case "has", "exists", "empty":
		return eBin(op, g.eqn(depth, budget-2, false, precOf[op]+1), vB(g.r.Bool()))
	}
	lb := g.r.Intn(budget)
	leftMax := 99 // the script printer parenthesises a left operand when it must
	rightMax := precOf[op]
	if g.free() {
		rightMax = 99
	}
	return eBin(op, g.eqn(depth, lb, false, leftMax), g.eqn(depth, budget-1-lb, allowNot, rightMax))
}

func streamRandom(emit func(Case), r *lib.Rng, n int) {
	g := &objGen{r: r, dirty: 2}
	for i := 0; i < n; i++ {
		g.dirty = 2
		if i%8 == 7 {
			g.dirty = 24
		}
		if i%2 == 0 {
			emit(Case{Kind: "expr", X: g.expr(0, false), Stream: "random"})
		} else {
			emit(Case{Kind: "eqn", E: g.eqn(0, 1+g.r.Intn(7), true, 99), Stream: "random"})
		}
	}
}

// ---- texts ---------------------------------------------------------------------------------------------------------------

var handTexts = []string{
	"", "$", "@", "$.a", "$.a.b", "$['a']", "$[\"a\"]", "$[0]", "$[-1]", "$[*]", "$.*", "$..a", "$..", "$..*", "$..[1]", "$[..]", "$.[1]", "$[1,2]", "$['a','b']",
	"$[1:2]", "$[:2]", "$[1:]", "$[::2]", "$[1:2:3]", "$[:]", "$[ 1 ]", "$[ 'a' , 'b' ]", "$[1 ,2]", "$[1: 2]", "$[ :2]", "$[1:2:]", "$[1::]", "$[::]", "$[1:2:3:4]",
	"$$", "$@", "a$", "a.b", "a", "[1]", "*", "..a", ".a", "$.", "$.a.", "$[", "$[1", "$['a", "$['a'", "$[]", "$[,]", "$[1,]", "$[1,'a',]", "$.a[", "$ .a", "$.a b",
	"$[?(@.a == 1)]", "$[?@.a == 1]", "$[?(@.a)]", "$[?(@.a == 'x')]", "$[?(1 + 2 * 3 == 7)]", "$[?(!@.a)]", "$[?(!(@.a == 1))]", "$[?(@.a in [1,2,3])]", "$[?(@.a in [])]",
	"$[?(@.a ~= /x/)]", "$[?(@.a =~ /x/)]", "$[?(@.a ~= 'x')]", "$[?(length(@.a) == 1)]", "$[?(count(@.a) == 1)]", "$[?(match(@.a, 'x'))]", "$[?(search(@.a, 'x'))]",
	"$[?(@.a has true)]", "$[?(@.a exists false)]", "$[?(@.a empty true)]", "$[?(@.a == Nothing)]", "$[?(@.a == null)]", "$[?(@.a == true)]", "$[?(@.a == 1.5e3)]",
	"$[?(@.a == -1)]", "$[?(@.a - 1 == 2)]", "$[?(@.a -1 == 2)]", "$[?(@.a-1 == 2)]", "$[?(@.a || @.b && @.c)]", "$[?((@.a || @.b) && @.c)]", "$[?(@.a || (@.b && @.c))]",
	"$[?(1 - 2 - 3)]", "$[?(1 - (2 - 3))]", "$[?((1 - 2) - 3)]", "$[?(2 * (3 + 4))]", "$[?((2 * 3) + 4)]", "$[?(((1)))]", "$[?()]", "$[?(]", "$[?(@.a == 1]", "$[?(@.a == 1)",
	"$[?(@.a == 1))]", "$[?(@.a === 1)]", "$[?(@.a = 1)]", "$[?(@.a <> 1)]", "$[?(@.a < = 1)]", "$[?(@.a <= 1)]", "$[?(@.a >= 1)]", "$[?(@.a != 1)]", "$[?(@.a !1)]",
	"$[?(@.a == 1 )]", "$[?( @.a == 1)]", "$[?(@.a  ==  1)]", "$[?(@.a==1)]", "$[?(@.a== 1)]", "$[?(@.a ==1)]", "$[?(1==1)]", "$[?(1<2)]", "$[?(1--1)]", "$[?(1 - -1)]", "$[?(1 -- 1)]",
	"$[?(match(@.a))]", "$[?(match(@.a, 'x', 'y'))]", "$[?(length())]", "$[?(length(@.a, @.b))]", "$[?(in(1, [1]))]", "$[?(foo(1))]", "$[?(true)]", "$[?(truex)]", "$[?(nul)]",
	"$[?(Nothin)]", "$[?(Nothing)]", "$[?(N)]", "$[?(@.a == 'it\\'s')]", "$[?(@.a == \"x\")]", "$[?(@.a == 'a\\u0041\\x41\\n')]", "$[?(@.a == '\\q')]", "$[?(@.a == '\\u12')]",
	"$[?(@.a == '\\ud800')]", "$[?(@.a == 'abc)]", "$[?(@.a == 1.)]", "$[?(@.a == 1.e5)]", "$[?(@.a == 1e)]", "$[?(@.a == 1ex)]", "$[?(@.a == 1e+)]", "$[?(@.a == -)]", "$[?(@.a == -.5)]",
	"$[?(@.a == 007)]", "$[?(@.a == 9223372036854775808)]", "$[?(@.a == -9223372036854775808)]", "$[?(@.a == 1e999)]", "$[?(@.a == [1, 2])]", "$[?(@.a == [1,[2,3]])]", "$[?(@.a == [1,)]",
	"$[?(@.a == [1)]", "$[?(@.a == [1 2])]", "$[?(@.a == [1+2])]", "$[?(@.a == [@.b])]", "$[?(@.a ~= /a\\/b/)]", "$[?(@.a ~= /a/b/)]", "$[?(@.a ~= /abc)]", "$[?(@.a ~= /a\\)]", "$[?(@.a ~= /)]",
	"$[?(@.a ~= //)]", "$[(1+2)]", "$[(]", "$[?(@[?(@.b == 1)].c == 2)]", "$[?(@..a == 1)]", "$[?(@.. == 1)]", "$[?(@.* == 1)]", "$[?($.a == @.a)]", "$[?(@ == 1)]", "$[?(@.a.b.c)]",
	"(1 == 2)", "1 == 2", "1", "!true", "!(1 == 2)", "(!true && false)", "((1 + 2) * 3)", "(1 + 2) * 3", "1 + 2 * 3 - 4 / 5", "1 == 2 == 3", "!!true", "! true", "(1)", "((1))", "(1", "1)",
	"@.a", "(@.a)", "$.x exists true", "@", "@.a == @.b", "'a' + 'b'", "match('a' + 'b', 'c')", "match('a', 'b' + 'c')", "match('a', ('b' + 'c'))", "search(@.a, !true)", "length(@.a) + 1",
	"[?(1 == 2)]", "[?1 == 2]", "[?(@.a)]", "[?]", "[?x]", "[?()]", "[? (1) ]", "[?(1)] ", "[(1)]",
	"$['\\u2028']", "$['\\x41']", "$['\\']", "$['a\\", "$['a\\'", "$['a'b']", "$[''a']", "$.a\x00", "$.\x00", "$.a.b c", "$.é", "$.\xff", "$['\xff']", "$.a-b", "$.a#", "$.#", "$.1", "$.1.2", "1.2",
	"$.a[?(@.b)][0]..c[1:2]['x','y'].*", "$.a[ ?(@.b)]", "$[? (@.b)]", "$[?(@.b) ]", "$[*", "$[* ]", "$[ *]", "$[**]", "$.**", "$***", "$*", "$.a*", "$.a.*.b", "$..a..b", "$...a", "$....",
	"$[1]2", "$[1].2", "$[01]", "$[-0]", "$[--1]", "$[-]", "$[1-]", "$[- 1]", "$[9223372036854775807]", "$[9223372036854775808]", "$[-9223372036854775808]", "$[99999999999999999999]",
}

var mutAlphabet = []byte(" .[]()'\"\\*$@?!,:-+/<>=&|~019aeinNtx\x00\x7f\xc3\xa9\xff")

func mutate(r *lib.Rng, in []byte) []byte {
	out := append([]byte{}, in...)
	for k := 1 + r.Intn(2); k > 0; k-- {
		switch op := r.Intn(6); {
		case op == 0 && len(out) > 0: // delete
			i := r.Intn(len(out))
			out = append(out[:i], out[i+1:]...)
		case op == 1 && len(out) > 0: // replace
			out[r.Intn(len(out))] = lib.Pick(r, mutAlphabet)
		case op == 2 && len(out) > 1: // truncate
			out = out[:1+r.Intn(len(out)-1)]
		case op == 3 && len(out) > 1: // duplicate a byte
			i := r.Intn(len(out))
			out = append(out[:i+1], out[i:]...)
		case op == 4 && len(out) > 2: // swap neighbours
			i := r.Intn(len(out) - 1)
			out[i], out[i+1] = out[i+1], out[i]
		default: // insert
			i := r.Intn(len(out) + 1)
			out = append(out[:i], append([]byte{lib.Pick(r, mutAlphabet)}, out[i:]...)...)
		}
	}
	return out
}

func streamText(emit func(Case), r *lib.Rng, n int, full bool) {
	for _, t := range handTexts {
		emit(Case{Kind: "text", Text: []byte(t), Stream: "text_hand"})
	}
	// every string of length <= 4 (5) over the punctuation of the grammar
	al := []byte("$.[]'*1a")
	maxLen := 4
	if full {
		maxLen = 5
	}
	var rec func(b []byte)
	rec = func(b []byte) {
		emit(Case{Kind: "text", Text: append([]byte{}, b...), Stream: "text_exhaustive"})
		if len(b) == maxLen {
			return
		}
		for _, c := range al {
			rec(append(b, c))
		}
	}
	rec(nil)
	rep.Exhaustive = append(rep.Exhaustive, "every text of length <= "+string(rune('0'+maxLen))+" over \"$.[]'*1a\" through the expression, equation and filter parsers (model vs implementation)")
	// equation punctuation inside a filter
	al2 := []byte("@.a1 =!&(),'-")
	var rec2 func(b []byte)
	rec2 = func(b []byte) {
		t := append(append([]byte("$[?("), b...), ")]"...)
		emit(Case{Kind: "text", Text: t, Stream: "text_exhaustive"})
		emit(Case{Kind: "text", Text: append([]byte{}, b...), Stream: "text_exhaustive"})
		if len(b) == maxLen {
			return
		}
		for _, c := range al2 {
			rec2(append(b, c))
		}
	}
	rec2(nil)
	seedMu.Lock()
	var seedStrs []string
	for t := range seedTexts {
		seedStrs = append(seedStrs, t)
	}
	seedMu.Unlock()
	sort.Strings(seedStrs)
	var seeds [][]byte
	for _, t := range seedStrs {
		seeds = append(seeds, []byte(t))
	}
	for _, t := range handTexts {
		seeds = append(seeds, []byte(t))
	}
	for i := 0; i < n; i++ {
		emit(Case{Kind: "text", Text: mutate(r, lib.Pick(r, seeds)), Stream: "text_mutated"})
	}
}
