// API-built expressions with the `Bracket` flag fragment (jp.B(), Expr.B(), jp.Bracket(' ')).
//
// The flag is not a selector: Expr.Append writes nothing for it and switches to the bracket notation for what
// follows; the evaluators pass over it. The parser never builds it. A `bexpr` case is an expression
// description with the extra fragment kind 'P' (top level only). For String() and BracketString():
//
//	tie     the model's print (driver op bxprint) equals the implementation's; the model's accept/reject and
//	        re-print of the printed text (xparse) equal the implementation's; the model's round-trip verdict
//	        (bxjudge) is 1 exactly when the flags do not change the text (and the flag-free expression has no
//	        named deviation) and agrees with what the real code did;
//	oracle  the text parses; the re-parsed expression prints the same text — unless the Lean predicate
//	        `bracketReprint` holds of the object (known C14-bracket-flag), and then it must print what the
//	        model says the re-parsed expression prints, stably, and be the flag-free expression; original and
//	        re-parsed expression give the same Get results (as multisets) and the same Has on the data trees —
//	        unless the expression ends with a flag (`bracketLast`, known C14-bracket-last).
package main

import (
	"bytes"
	"fmt"
	"hash/fnv"
	"strings"
	"sync/atomic"

	"github.com/ohler55/ojg/jp"
	"verif/harness/lib"
)

func fP() FragD { return FragD{Kind: 'P'} }

func stripFlags(x ExprD) ExprD {
	var out ExprD
	for _, f := range x {
		if f.Kind != 'P' {
			out = append(out, f)
		}
	}
	return out
}

func stripBracket(x jp.Expr) jp.Expr {
	out := jp.Expr{}
	for _, f := range x {
		if _, ok := f.(jp.Bracket); !ok {
			out = append(out, f)
		}
	}
	return out
}

// countFlagPositions records where the flags of x stand.
func countFlagPositions(x ExprD, prefix string) {
	n := 0
	for i, f := range x {
		if f.Kind != 'P' {
			continue
		}
		n++
		switch {
		case i == 0:
			rep.Count(prefix+".position.start", 1)
		case i == len(x)-1:
			rep.Count(prefix+".position.last", 1)
		case x[i-1].Kind == 'D':
			rep.Count(prefix+".position.after-descent", 1)
		default:
			rep.Count(prefix+".position.middle", 1)
		}
	}
	if n >= 2 {
		rep.Count(prefix+".position.repeated", 1)
	}
	rep.Count(fmt.Sprintf("%s.flags.%d", prefix, n), 1)
}

func streamBracket(emit func(Case), r *lib.Rng, n int, full bool) {
	// the box: every sequence of length 1..4 (thorough: 5) with at least one flag
	first := []FragD{fR(), fA(), fP(), fC("a"), fC("a b"), fN(0), fW(), fD(), fU("a", int64(1)), fS(0, 2)}
	later := first[2:]
	maxLen := 4
	if full {
		maxLen = 5
	}
	var rec func(x ExprD)
	rec = func(x ExprD) {
		if len(x) > 0 {
			has := false
			for _, f := range x {
				has = has || f.Kind == 'P'
			}
			if has {
				rep.Count("bracket.box", 1)
				countFlagPositions(x, "bracket.box")
				emit(Case{Kind: "bexpr", X: append(ExprD{}, x...), Stream: "bracket_box"})
			}
		}
		if len(x) == maxLen {
			return
		}
		alpha := later
		if len(x) == 0 {
			alpha = first
		}
		for _, f := range alpha {
			rec(append(x, f))
		}
	}
	rec(nil)
	rep.Exhaustive = append(rep.Exhaustive, fmt.Sprintf("every API-built expression of 1..%d fragments over {Root or At (first only), Child(a), Child('a b'), Nth(0), Wildcard, Descent, Union(a,1), Slice(0,2), Bracket flag} that holds at least one Bracket flag (the flag at the start, in the middle, directly after a descent, last, repeated): String and BracketString against the model, re-parse, re-print, Get/Has against the original", maxLen))
	// random: expressions of the general generator (filters included) with 1..3 flags inserted
	g := &objGen{r: r, dirty: 0}
	for i := 0; i < n; i++ {
		g.dirty = 0
		if i%8 == 7 {
			g.dirty = 8
		}
		x := g.expr(0, false)
		k := 1 + g.r.Intn(3)
		for j := 0; j < k; j++ {
			at := g.r.Intn(len(x) + 1)
			if g.r.Intn(4) == 0 {
				// directly after a descent, when there is one
				for p, f := range x {
					if f.Kind == 'D' {
						at = p + 1
						break
					}
				}
			}
			y := append(ExprD{}, x[:at]...)
			y = append(y, fP())
			x = append(y, x[at:]...)
		}
		rep.Count("bracket.random", 1)
		countFlagPositions(x, "bracket.random")
		emit(Case{Kind: "bexpr", X: x, Stream: "bracket_random"})
	}
}

func addKnown(id, class, what string, r map[string]any) bool {
	if !lib.HasKnown(knownList, id) {
		return false
	}
	rep.Add(lib.Finding{Kind: "known", Class: class, What: what, Replay: r, KnownID: id})
	return true
}

func evalExprHas(x jp.Expr, data []any) []string {
	out := make([]string, len(data))
	for i, d := range data {
		d := d
		out[i] = safe(func() string { return renderSorted(x.Get(d)) + fmt.Sprintf(" has=%v", x.Has(d)) })
		if isPanic(out[i]) {
			out[i] = "\x00panic"
		}
	}
	return out
}

func (w *work) judgeBExpr() {
	c := w.c
	rep.AddEval(1, 1)
	if w.buildPanic != "" {
		report("violation", "bexpr:build-panic", "constructors panicked: "+w.buildPanic, c, nil)
		return
	}
	plain := stripBracket(w.x)
	m := newMentions()
	m.expr(c.X)
	h := fnv.New64a()
	h.Write([]byte(c.line()))
	data := dataTrees(m, h.Sum64(), 4)
	var origEval []string
	for br := 0; br < 2; br++ {
		mode := [2]string{"String", "BracketString"}[br]
		text := goText(w.texts[br])
		// tie: print
		mprint := unhexModel(w.ans[br])
		if !bytes.Equal(mprint, text) {
			report("disagreement", "bexpr:print:"+mode, "model prints "+q(mprint)+", implementation "+q(text), c, nil)
		}
		jf := strings.Fields(w.ans[2+br])
		if len(jf) != 5 {
			report("disagreement", "bexpr:judge-answer", "bxjudge answered "+trunc(w.ans[2+br], 100), c, nil)
			continue
		}
		mrt, devs, reprint, last := jf[0] == "1", jf[2], jf[3] == "1", jf[4] == "1"
		if jf[1] != "1" {
			rep.Count("judge.not_constructible", 1)
		}
		extra := map[string]any{"mode": mode, "text": string(text), "text_hex": lib.HexF(text)}
		replay := func() map[string]any {
			r := map[string]any{"case": c.line(), "stream": c.Stream, "deviations": devs}
			for k, v := range extra {
				r[k] = v
			}
			return r
		}
		if isPanic(w.texts[br]) {
			violation("bexpr:print-panic:"+mode, "printing panicked: "+w.texts[br], devs, c, nil)
			continue
		}
		if idx := atomic.AddInt64(&sampleCtr, 1); idx%5003 == 1 {
			rep.Sample(map[string]any{"case": trunc(c.line(), 200), "text": q(text), "model": q(mprint), "bxjudge": w.ans[2+br]})
		}
		keepSeed(text)
		// the real round trip
		y, err := jp.ParseString(string(text))
		// tie: parse
		mok, mf := parseAnswer(w.ans[4+br])
		var mDot, mBr []byte
		tieReprint := false
		if mok != (err == nil) {
			if !(err != nil && strings.Contains(err.Error(), "error parsing regexp")) {
				report("disagreement", "bexpr:parse-accept:"+mode, fmt.Sprintf("model accepts=%v, implementation error=%v on %s", mok, err, q(text)), c, nil)
			}
		} else if mok && len(mf) == 2 {
			mDot, mBr = unhexModel(mf[0], true), unhexModel(mf[1], true)
			gs, gb := goText(safe(func() string { return y.String() })), goText(safe(func() string { return y.BracketString() }))
			if !bytes.Equal(mDot, gs) || !bytes.Equal(mBr, gb) {
				report("disagreement", "bexpr:parse-reprint:"+mode, "re-parsed "+q(text)+": model prints "+q(mDot)+" / "+q(mBr)+", implementation "+q(gs)+" / "+q(gb), c, nil)
			} else {
				tieReprint = true
			}
		}
		// oracle: text
		verdict := ""
		flagKnown := false
		if err != nil {
			verdict = "parse-error"
			extra["error"] = err.Error()
		} else {
			var again string
			if br == 0 {
				again = safe(func() string { return y.String() })
			} else {
				again = safe(func() string { return y.BracketString() })
			}
			switch {
			case again == string(text):
				if canonExpr(y) != canonExpr(plain) {
					verdict = "structure-differs"
					extra["original"] = canonExpr(plain)
					extra["reparsed"] = canonExpr(y)
				}
			case reprint && devs == "-":
				// C14-bracket-flag: the re-parsed expression is the flag-free one; its text is what the model says
				// it is, and that text is stable
				extra["reprint"] = again
				z, err2 := jp.ParseString(again)
				stable := err2 == nil && safe(func() string {
					if br == 0 {
						return z.String()
					}
					return z.BracketString()
				}) == again
				if tieReprint && stable && canonExpr(y) == canonExpr(plain) {
					flagKnown = true
				} else {
					verdict = "print-differs"
					extra["stable"] = stable
					extra["model_reprint_agrees"] = tieReprint
					extra["original"] = canonExpr(plain)
					extra["reparsed"] = canonExpr(y)
				}
			default:
				verdict = "print-differs"
				extra["reprint"] = again
			}
		}
		// oracle: evaluation
		evalVerdict := ""
		if err == nil {
			if origEval == nil {
				origEval = evalExprHas(w.x, data)
			}
			if same, at := sameStrings(origEval, evalExprHas(y, data)); !same {
				if overlap(func() string { return evalExprHas(w.x, data[at:at+1])[0] }, func() string { return evalExprHas(y, data[at:at+1])[0] }) {
					rep.Count("oracle.evaluator_nondeterministic", 1)
				} else {
					evalVerdict = "eval-differs"
					extra["data"] = lib.Render(data[at])
					extra["original_result"] = trunc(origEval[at], 300)
					extra["reparsed_result"] = trunc(evalExprHas(y, data[at:at+1])[0], 300)
				}
			}
		}
		rep.Count("oracle.bexpr."+mode+"."+map[bool]string{true: "ok", false: "fails"}[verdict == "" && evalVerdict == "" && !flagKnown], 1)
		if verdict != "" {
			violation("bexpr:"+verdict+":"+mode, mode+"() "+q(text)+" of an expression with Bracket flags does not round-trip: "+verdict, devs, c, extra)
		} else if flagKnown {
			rep.Count("bracket.known-flag", 1)
			if !addKnown("C14-bracket-flag", "bracket-flag: "+mode, mode+"() "+q(text)+" is read back as the expression without the flag and re-printed as "+q([]byte(fmt.Sprint(extra["reprint"]))), replay()) {
				violation("bexpr:print-differs:"+mode, mode+"() "+q(text)+" re-prints differently", devs, c, extra)
			}
		}
		if evalVerdict != "" {
			if last && devs == "-" && addKnown("C14-bracket-last", "bracket-last: "+mode, "a trailing Bracket flag changes the evaluation: "+q(text), replay()) {
				rep.Count("bracket.known-last", 1)
			} else {
				violation("bexpr:eval-differs:"+mode, mode+"() "+q(text)+": original and re-parsed expression evaluate differently", devs, c, extra)
			}
		}
		// the Lean-side judgement
		if devs == "-" && mrt != !reprint {
			report("disagreement", "bexpr:verdict-rule:"+mode, fmt.Sprintf("model round-trips=%v but bracketReprint=%v for %s", mrt, reprint, q(text)), c, nil)
		}
		if mrt != (verdict == "" && !flagKnown) {
			report("disagreement", "bexpr:verdict:"+mode, fmt.Sprintf("model round-trips=%v, implementation verdict %q (flag finding %v) for %s", mrt, verdict, flagKnown, q(text)), c, nil)
		}
		if !mrt && !reprint && devs == "-" {
			report("disagreement", "bexpr:unexplained:"+mode, "the model does not round-trip "+q(text)+" and names no deviation", c, nil)
		}
	}
}
