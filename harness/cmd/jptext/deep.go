// The "deep" stream: seeded random equation trees with 4–6 levels of operator nesting.
//
// Every tree is an ordinary `eqn` case, so judgeEqn compares, for Equation.String, Script.String and
// Filter.String: the model's print with the implementation's (tie), the model's accept/reject and re-print of
// the printed text with the implementation's (tie), and runs the round-trip oracle (print, parse, print,
// template, evaluation). Nothing is held back to keep the printers out of trouble: any operator may be the
// operand of any other on either side (all 19 binary constructors, Not, match/search with arbitrary arguments,
// length/count), every kind of constant may stand anywhere, and path leaves carry filters whose equations hold
// paths with filters again (two levels). Constructs of the two remaining known classes (regex text, no text
// form) are chosen with the small probability objGen.risky gives them and are classified by the Lean side as
// in every other stream.
//
// Distribution (rep.Count): deep.depth.N (operator nesting of the top equation), deep.opnodes.<bucket> (operator
// nodes incl. those inside filters), deep.filter_nesting.N (filters inside filters), deep.leaf.<kind> and
// deep.op.<name> (totals over all trees), deep.text_bytes.<bucket>.
package main

import (
	"fmt"
	"math"

	"verif/harness/lib"
)

type deepGen struct {
	g *objGen
	// per tree
	keys    []string // the keys its paths may mention (the data trees grow with the square of their number)
	multi   int      // units left in the current script for fragments that select several values
	ops     int
	fnest   int
	leaves  map[string]int
	opNames map[string]int
}

var deepStrAlphabet = []byte("ab z'\"\\/\t\n\x00\x01\x7f.,()[]?@$*!=<>&|+-~\xc3\xa9\xe2\x80\xa8\xff\x80")

func (d *deepGen) str() string {
	g := d.g
	switch k := g.r.Intn(8); {
	case k < 3:
		return lib.Pick(g.r, tokenKeys)
	case k < 5:
		return lib.Pick(g.r, oddKeys)
	case k == 5:
		return lib.Pick(g.r, dirtyKeys)
	default:
		n := g.r.Intn(7)
		b := make([]byte, n)
		for i := range b {
			b[i] = lib.Pick(g.r, deepStrAlphabet)
		}
		return string(b)
	}
}

func (d *deepGen) key() string { return lib.Pick(d.g.r, d.keys) }

// take asks for cost units of the current script's allowance of multi-valued fragments. The evaluator tries
// every combination of the values of all paths of a script (and the harness evaluates on trees that hold
// every mentioned key at two levels), so a script gets 2 units: a wildcard, slice, union or filter costs 1, a
// descent 2.
func (d *deepGen) take(cost int) bool {
	if d.multi < cost {
		return false
	}
	d.multi -= cost
	return true
}

func (d *deepGen) float() float64 {
	g := d.g
	if g.risky() {
		return lib.Pick(g.r, []float64{math.NaN(), math.Inf(1), math.Inf(-1)})
	}
	return lib.Pick(g.r, []float64{1.5, -0.25, 1e21, 1e-7, 3.14159, 0.1, 2.5e10 + 0.5, 2, -3, 0, 1e6, math.Copysign(0, -1), 5e-324, 1e20,
		123456.789, -1e100, 1 << 53})
}

func (d *deepGen) scalar() ValD {
	g := d.g
	switch g.r.Intn(7) {
	case 0:
		return ValD{Kind: 'n'}
	case 1:
		return ValD{Kind: '0'}
	case 2:
		return ValD{Kind: 'b', B: g.r.Bool()}
	case 3:
		return ValD{Kind: 's', S: d.str()}
	case 4:
		return ValD{Kind: 'd', F: d.float()}
	default:
		return ValD{Kind: 'i', I: int64(g.smallInt())}
	}
}

func (d *deepGen) list(nest int) ValD {
	g := d.g
	n := 1 + g.r.Intn(4)
	if g.r.Intn(8) == 0 {
		n = 0
	}
	vs := []ValD{}
	for i := 0; i < n; i++ {
		if nest < 2 && g.r.Intn(8) == 0 {
			vs = append(vs, d.list(nest+1))
		} else {
			vs = append(vs, d.scalar())
		}
	}
	return ValD{Kind: 'l', L: vs}
}

func (d *deepGen) regex() *EqD {
	g := d.g
	rx := lib.Pick(g.r, []string{"a.*", "^b", "(?i)x", `\d+`, "[a-z]", "", "a|b", "^a$", "é", "a b", `\.`})
	if g.risky() {
		rx = lib.Pick(g.r, []string{"a/b", "a\tb", `a\\`, "'"})
	}
	d.leaves["regex"]++
	return vRx(rx)
}

// path makes an operand path; flevel is the number of filters it is already inside of.
func (d *deepGen) path(flevel int) ExprD {
	g := d.g
	var x ExprD
	switch k := g.r.Intn(10); {
	case g.risky():
		x = append(x, fC(lib.Pick(g.r, tokenKeys))) // no text form as an operand (known)
	case k < 7:
		x = append(x, fA())
	default:
		x = append(x, fR())
	}
	n := g.r.Intn(4)
	for i := 0; i < n; i++ {
		switch k := g.r.Intn(20); {
		case k < 5:
			x = append(x, fC(d.key()))
		case k < 7:
			x = append(x, fN(g.smallInt()))
		case k < 9 && d.take(1):
			x = append(x, fW())
		case k == 9 && d.take(2):
			switch g.r.Intn(3) {
			case 0:
				x = append(x, fD())
			case 1:
				x = append(x, fD(), fC(d.key()))
			default:
				x = append(x, fD(), fW())
			}
		case k < 12 && d.take(1):
			m := 2 + g.r.Intn(3)
			if g.risky() {
				m = g.r.Intn(2)
			}
			var ms []any
			for j := 0; j < m; j++ {
				if g.r.Bool() {
					ms = append(ms, int64(g.smallInt()))
				} else {
					ms = append(ms, d.key())
				}
			}
			x = append(x, fU(ms...))
		case k < 14 && d.take(1):
			var ns []int
			for j := g.r.Intn(4); j > 0; j-- {
				ns = append(ns, g.smallInt())
			}
			x = append(x, fS(ns...))
		case k >= 14 && flevel < 2 && d.take(1):
			if flevel+1 > d.fnest {
				d.fnest = flevel + 1
			}
			saved := d.multi
			d.multi = 2
			x = append(x, fF(d.tree(1+g.r.Intn(2), flevel+1)))
			d.multi = saved
		default:
			if g.r.Intn(3) == 0 {
				x = append(x, fN(g.smallInt()))
			} else {
				x = append(x, fC(d.key()))
			}
		}
	}
	return x
}

func (d *deepGen) leaf(flevel int) *EqD {
	g := d.g
	switch k := g.r.Intn(20); {
	case k < 7:
		d.leaves["path"]++
		return eGet(d.path(flevel))
	case k == 7:
		d.leaves["length"]++
		return eLen(d.path(flevel))
	case k == 8:
		d.leaves["count"]++
		return eCount(d.path(flevel))
	case k == 9:
		d.leaves["list"]++
		v := d.list(0)
		return &EqD{Val: &v}
	case k == 10 && g.r.Intn(4) == 0:
		return d.regex()
	default:
		v := d.scalar()
		d.leaves[map[byte]string{'n': "null", '0': "nothing", 'b': "bool", 's': "string", 'd': "float", 'i': "int"}[v.Kind]]++
		return &EqD{Val: &v}
	}
}

// tree makes an equation whose operator nesting is exactly depth (depth 0: a leaf).
func (d *deepGen) tree(depth, flevel int) *EqD {
	g := d.g
	if depth <= 0 {
		return d.leaf(flevel)
	}
	d.ops++
	if g.r.Intn(9) == 0 {
		d.opNames["not"]++
		return eNot(d.tree(depth-1, flevel))
	}
	op := lib.Pick(g.r, binOpNames)
	d.opNames[op]++
	// one side carries the full depth, the other one a random smaller one (biased to small trees)
	other := 0
	if depth > 1 {
		other = g.r.Intn(depth)
		if g.r.Intn(3) == 0 {
			other = g.r.Intn(other + 1)
		}
	}
	deepLeft := g.r.Bool()
	var right *EqD
	typical := g.r.Intn(4) != 0
	switch {
	case op == "in" && typical:
		d.leaves["list"]++
		v := d.list(0)
		right, deepLeft = &EqD{Val: &v}, true
	case op == "rx" && typical:
		right, deepLeft = d.regex(), true
	case (op == "has" || op == "exists" || op == "empty") && typical:
		d.leaves["bool"]++
		right, deepLeft = vB(g.r.Bool()), true
	case (op == "match" || op == "search") && typical && g.r.Bool():
		d.leaves["string"]++
		right, deepLeft = vS(lib.Pick(g.r, []string{"a.*", "b", "^x", "[a-c]+", ""})), true
	}
	if right != nil {
		return eBin(op, d.tree(depth-1, flevel), right)
	}
	if deepLeft {
		l := d.tree(depth-1, flevel)
		return eBin(op, l, d.tree(other, flevel))
	}
	l := d.tree(other, flevel)
	return eBin(op, l, d.tree(depth-1, flevel))
}

func eqDepth(e *EqD) int {
	if e == nil || e.Op == "" || e.Op == "get" || e.Op == "length" || e.Op == "count" {
		return 0
	}
	l, r := eqDepth(e.L), eqDepth(e.R)
	if r > l {
		l = r
	}
	return l + 1
}

func bucket(n int, edges ...int) string {
	lo := 0
	for _, e := range edges {
		if n < e {
			return fmt.Sprintf("%02d-%02d", lo, e-1)
		}
		lo = e
	}
	return fmt.Sprintf("%02d+", lo)
}

func streamDeep(emit func(Case), r *lib.Rng, n int) {
	d := &deepGen{g: &objGen{r: r, dirty: 2}}
	for i := 0; i < n; i++ {
		d.g.dirty = 0
		if i%8 == 7 {
			d.g.dirty = 6
		}
		d.ops, d.fnest, d.leaves, d.opNames = 0, 0, map[string]int{}, map[string]int{}
		d.multi = 2
		d.keys = d.keys[:0]
		for len(d.keys) < 4 {
			d.keys = append(d.keys, d.str())
		}
		depth := 4 + i%3
		e := d.tree(depth, 0)
		if got := eqDepth(e); got != depth {
			panic(fmt.Sprintf("deep stream: depth %d instead of %d", got, depth))
		}
		rep.Count(fmt.Sprintf("deep.depth.%d", depth), 1)
		rep.Count("deep.opnodes."+bucket(d.ops, 4, 6, 8, 12, 16, 24, 32, 48), 1)
		rep.Count(fmt.Sprintf("deep.filter_nesting.%d", d.fnest), 1)
		for k, v := range d.leaves {
			rep.Count("deep.leaf."+k, int64(v))
		}
		for k, v := range d.opNames {
			rep.Count("deep.op."+k, int64(v))
		}
		emit(Case{Kind: "eqn", E: e, Stream: "deep"})
	}
}
