// Correspondence and oracle harness for the JSONPath text family (C14: text forms round-trip).
//
// A case is an object description (an expression or an equation, built through the public constructors
// of ohler55/ojg/jp only) or a raw text. For an object the harness
//
//   - prints it with the real code (String, BracketString / Equation.String, Script.String, Filter.String),
//     parses the text back with the real parser, prints again, compares the structure of original and
//     re-parsed object (read through reflect, with the normalisations of lean/OjgVerif/JPText/Spec.lean) and
//     evaluates both on data trees built from the keys the object mentions: THE ORACLE (violation);
//   - asks the Lean driver for the model's print, the model's parse of the Go text and its re-print, the
//     model-side round-trip verdict and the named deviations of the object: THE TIE (disagreement).
//
// A violation on an object for which the Lean side names a deviation of the pinned tree (Spec.lean `Dev`,
// known_findings.json `C14-*`) is reported as known.
package main

import (
	"bytes"
	"encoding/json"
	"flag"
	"fmt"
	"hash/fnv"
	"os"
	"os/exec"
	"path/filepath"
	"sort"
	"strconv"
	"strings"
	"sync"
	"sync/atomic"
	"time"

	"github.com/ohler55/ojg/jp"
	"verif/harness/lib"
)

var (
	prop     = flag.String("prop", "C14", "property id")
	tier     = flag.String("tier", "quick", "quick|thorough")
	seed     = flag.Uint64("seed", 1, "PRNG seed")
	driver   = flag.String("driver", "", "path of drv_jptext")
	outPath  = flag.String("out", "", "report path")
	replay   = flag.String("replay", "", "replay file")
	corpus   = flag.String("corpus", "", "corpus file: one hex line per case (hex of `expr <wire>`, `eqn <wire>` or `text <hex>`)")
	known    = flag.String("known", "", "known_findings.json")
	workers  = flag.Int("workers", 16, "parallel workers")
	caseLine = flag.String("caseline", "", "run one case given as a case line (used by the supervisor)")
)

// Case is one object description or one text.
type Case struct {
	Kind   string // expr | eqn | text
	X      ExprD
	E      *EqD
	Text   []byte
	Stream string
	Reject string // C06jp corpus: entry families (X, S, F) that must reject the text
}

func (c *Case) line() string {
	switch c.Kind {
	case "expr":
		return "expr " + wireOf(c.X)
	case "eqn":
		return "eqn " + wireOf(c.E)
	case "bexpr":
		return "bexpr " + wireOf(c.X)
	case "c06":
		return "c06 " + lib.HexF(c.Text)
	}
	return "text " + lib.HexF(c.Text)
}

func parseCaseLine(line string) (*Case, error) {
	i := strings.IndexByte(line, ' ')
	if i < 0 {
		return nil, fmt.Errorf("bad case line")
	}
	switch line[:i] {
	case "expr":
		x, err := parseWireExpr(line[i+1:])
		return &Case{Kind: "expr", X: x, Stream: "corpus"}, err
	case "eqn":
		e, err := parseWireEqn(line[i+1:])
		return &Case{Kind: "eqn", E: e, Stream: "corpus"}, err
	case "bexpr":
		x, err := parseWireExpr(line[i+1:])
		return &Case{Kind: "bexpr", X: x, Stream: "corpus"}, err
	case "text", "c06":
		b, err := lib.UnhexF(strings.TrimSpace(line[i+1:]))
		return &Case{Kind: line[:i], Text: b, Stream: "corpus"}, err
	}
	return nil, fmt.Errorf("bad case kind")
}

var rep *lib.Report
var knownList []lib.Known

// texts printed by object cases, kept as seeds of the text stream
var seedMu sync.Mutex
var seedTexts = map[string]struct{}{}

// keepSeed keeps a fixed (hash-selected) subset of the printed texts: independent of scheduling.
func keepSeed(b []byte) {
	h := fnv.New64a()
	h.Write(b)
	if h.Sum64()%8 != 0 {
		return
	}
	seedMu.Lock()
	seedTexts[string(b)] = struct{}{}
	seedMu.Unlock()
}

func main() {
	flag.Parse()
	if os.Getenv("VERIF_JPTEXT_CHILD") == "" {
		// the real work runs in a child process: a fatal error of the Go runtime in the code under test
		// (stack overflow of a recursion that no longer ends) cannot be recovered, only survived
		os.Exit(supervise())
	}
	rep = lib.NewReport(*prop, *tier, *seed)
	knownList = lib.LoadKnown(*known, *prop)
	if *caseLine != "" {
		c, err := parseCaseLine(*caseLine)
		if err != nil {
			os.Exit(3)
		}
		d, err := lib.StartDriver(*driver)
		if err != nil {
			os.Exit(3)
		}
		defer d.Close()
		if err := processBatch(d, []Case{*c}); err != nil {
			os.Exit(3)
		}
		return
	}
	if *replay != "" {
		runReplay()
		return
	}
	full := *tier == "thorough"
	if *prop == "C06jp" && *corpus == "" {
		// the corpus of the sub-check, when there is one, has the default name
		if _, err := os.Stat("corpus/C06jp.txt"); err == nil {
			*corpus = "corpus/C06jp.txt"
		}
	}
	var fatal atomic.Value
	run := func(produce func(emit func(Case))) {
		cases := make(chan []Case, 64)
		var wg sync.WaitGroup
		for w := 0; w < *workers; w++ {
			wg.Add(1)
			w := w
			go func() {
				defer wg.Done()
				d, err := lib.StartDriver(*driver)
				if err != nil {
					fatal.Store(err.Error())
					for range cases {
					}
					return
				}
				defer d.Close()
				for batch := range cases {
					journal(w, batch)
					if err := processBatch(d, batch); err != nil {
						fatal.Store(err.Error())
					}
				}
			}()
		}
		var cur []Case
		seen := map[uint64]struct{}{}
		emit := func(c Case) {
			h := fnv.New64a()
			h.Write([]byte(c.line()))
			k := h.Sum64()
			if _, dup := seen[k]; dup {
				rep.Count("stream.duplicates_skipped", 1)
				return
			}
			seen[k] = struct{}{}
			rep.Count("stream."+c.Stream, 1)
			cur = append(cur, c)
			if len(cur) >= 64 {
				cases <- cur
				cur = nil
			}
		}
		produce(emit)
		if len(cur) > 0 {
			cases <- cur
		}
		close(cases)
		wg.Wait()
	}
	on := func(name string) bool {
		sel := os.Getenv("VERIF_STREAMS")
		return sel == "" || strings.Contains(","+sel+",", ","+name+",")
	}
	if *prop == "C06jp" {
		run(func(emit func(Case)) {
			if *corpus != "" {
				if data, err := os.ReadFile(*corpus); err == nil {
					for _, line := range strings.Split(string(data), "\n") {
						line = strings.TrimSpace(line)
						if line == "" || strings.HasPrefix(line, "#") {
							continue
						}
						fs := strings.Fields(line)
						if b, err := lib.UnhexF(fs[0]); err == nil {
							c := Case{Kind: "c06", Text: b, Stream: "corpus"}
							if len(fs) > 1 && fs[1] != "#" && strings.Trim(fs[1], "XSF") == "" {
								c.Reject = fs[1]
							}
							emit(c)
						}
					}
				}
			}
			streamC06(emit, lib.NewRng(*seed^0xc06), full)
		})
		if e := fatal.Load(); e != nil {
			fmt.Fprintln(os.Stderr, "harness failure:", e)
			os.Exit(3)
		}
		rep.Rule = "malformed text through jp.ParseString, jp.Parse, jp.NewScript, jp.NewFilter and their Must* variants (and jp.MustParseEquation), each call under recover, each text under a 2 s watchdog: every string up to length 3 (4) over the grammar's alphabet, bare and inside filter/script brackets; the complete single-byte edit neighbourhood of valid texts; seeded random byte strings of length <= 64 incl. NUL and bytes >= 0x80. Oracle: no escaped panic, no runtime fault as error or panic value, no hang, Must* variants panic exactly with the error of the plain variant. Tie: accept/reject and the printed form of what was read equal the Lean parser model; corpus/C06jp.txt holds raw texts in hex; duplicates dropped by 64-bit hash; distinct_nontrivial counts texts of length >= 2"
		if err := rep.Write(*outPath); err != nil {
			fmt.Fprintln(os.Stderr, err)
			os.Exit(3)
		}
		return
	}
	// phase 1: objects
	run(func(emit func(Case)) {
		if *corpus != "" {
			if data, err := os.ReadFile(*corpus); err == nil {
				for _, line := range strings.Split(string(data), "\n") {
					line = strings.TrimSpace(line)
					if line == "" || strings.HasPrefix(line, "#") {
						continue
					}
					b, err := lib.UnhexF(strings.Fields(line)[0])
					if err != nil {
						continue
					}
					if c, err := parseCaseLine(string(b)); err == nil {
						emit(*c)
					}
				}
			}
		}
		if on("keys") {
			streamKeys(emit, full)
		}
		if on("frags") {
			streamFrags(emit, full)
		}
		if on("nums") {
			streamNums(emit, full)
		}
		if on("ops") {
			streamOps(emit, full)
		}
		if on("consts") {
			streamConsts(emit, full)
		}
		if on("rand") {
			n := 6000
			if full {
				n = 120000
			}
			streamRandom(emit, lib.NewRng(*seed), n)
		}
		if on("bracket") {
			n := 1500
			if full {
				n = 15000
			}
			streamBracket(emit, lib.NewRng(*seed^0xb7ac), n, full)
		}
		if on("deep") {
			n := 6000
			if full {
				n = 20000
			}
			streamDeep(emit, lib.NewRng(*seed^0xdee9), n)
		}
	})
	// phase 2: texts (hand-written, and mutations of what phase 1 printed)
	run(func(emit func(Case)) {
		if on("text") {
			n := 20000
			if full {
				n = 400000
			}
			streamText(emit, lib.NewRng(*seed^0x7e57), n, full)
		}
	})
	if e := fatal.Load(); e != nil {
		fmt.Fprintln(os.Stderr, "harness failure:", e)
		os.Exit(3)
	}
	rep.Rule = "objects built through the public jp constructors: every single-byte key and every pair (thorough: triple) over a class alphabet in child, first-child, after-descent, filter-path, string-constant and union positions; every fragment-kind sequence up to length 3 (4); slice/index/union integer boundaries; every equation tree with up to 3 operator nodes over the operator table (quick: one operator per precedence level and kind for 3 nodes) with constant and with path leaves; constant families (floats, lists, regexes); seeded random deep expressions and equations; a stream of seeded random equation trees with 4-6 levels of operator nesting over all 19 binary constructors, Not, length/count/match/search, every kind of constant in any position and path leaves with filters nested two levels (distribution under deep.*); API-built expressions with the Bracket flag fragment (jp.B(), Expr.B()): every fragment sequence of length 1-4 over a nine-letter alphabet with the flag at every position, and seeded random expressions (with filters) with flags inserted, printed by String and BracketString, compared with the model, parsed back, re-printed and evaluated (Get and Has as multisets) against the original (distribution under bracket.*); then texts: hand-written and byte mutations of the printed texts. Each object: String and BracketString (or Equation/Script/Filter String) printed, re-parsed, re-printed, compared structurally and evaluated on data trees built from its keys; duplicates dropped by 64-bit hash; distinct_nontrivial counts objects with at least two fragments or one operator and texts of length >= 2"
	if err := rep.Write(*outPath); err != nil {
		fmt.Fprintln(os.Stderr, err)
		os.Exit(3)
	}
}

// ---- surviving a fatal error of the code under test ----------------------------------------------------------

// journal notes the cases a worker is about to run, so that the supervisor can find the one that killed the
// process.
func journal(w int, batch []Case) {
	dir := os.Getenv("VERIF_JPTEXT_JOURNAL")
	if dir == "" {
		return
	}
	var sb strings.Builder
	for i := range batch {
		sb.WriteString(batch[i].line())
		sb.WriteByte('\n')
	}
	_ = os.WriteFile(filepath.Join(dir, fmt.Sprintf("w%d.txt", w)), []byte(sb.String()), 0o644)
}

func lastLines(b []byte, key string) string {
	for _, l := range strings.Split(string(b), "\n") {
		if strings.Contains(l, key) {
			return strings.TrimSpace(l)
		}
	}
	return ""
}

// supervise runs this program again as a child; when the child dies of a fatal runtime error it re-runs the
// journaled cases one by one, each in its own process, and reports those that kill it as violations.
func supervise() int {
	dir, err := os.MkdirTemp("", "jptext_journal")
	if err != nil {
		fmt.Fprintln(os.Stderr, err)
		return 3
	}
	defer os.RemoveAll(dir)
	env := append(os.Environ(), "VERIF_JPTEXT_CHILD=1", "VERIF_JPTEXT_JOURNAL="+dir)
	cmd := exec.Command(os.Args[0], os.Args[1:]...)
	cmd.Env = env
	cmd.Stdout = os.Stdout
	var errBuf bytes.Buffer
	cmd.Stderr = &errBuf
	runErr := cmd.Run()
	if runErr == nil {
		os.Stderr.Write(errBuf.Bytes())
		return 0
	}
	code := -1
	if ee, ok := runErr.(*exec.ExitError); ok {
		code = ee.ExitCode()
	}
	fatalMsg := lastLines(errBuf.Bytes(), "fatal error:")
	if code == 3 || fatalMsg == "" {
		os.Stderr.Write(errBuf.Bytes())
		return 3
	}
	// which case was it?
	var lines []string
	if *replay != "" {
		data, _ := os.ReadFile(*replay)
		var r struct {
			Replay map[string]any `json:"replay"`
		}
		_ = json.Unmarshal(data, &r)
		if l, _ := r.Replay["case"].(string); l != "" {
			lines = append(lines, l)
		}
	} else {
		ents, _ := os.ReadDir(dir)
		for _, de := range ents {
			data, _ := os.ReadFile(filepath.Join(dir, de.Name()))
			for _, l := range strings.Split(string(data), "\n") {
				if l != "" {
					lines = append(lines, l)
				}
			}
		}
	}
	sort.Strings(lines)
	rp := lib.NewReport(*prop, *tier, *seed)
	var mu sync.Mutex
	var wg sync.WaitGroup
	sem := make(chan struct{}, 16)
	for _, l := range lines {
		wg.Add(1)
		sem <- struct{}{}
		go func(l string) {
			defer wg.Done()
			defer func() { <-sem }()
			c := exec.Command(os.Args[0], "-prop", *prop, "-driver", *driver, "-known", *known, "-caseline", l)
			c.Env = append(os.Environ(), "VERIF_JPTEXT_CHILD=1")
			var eb bytes.Buffer
			c.Stderr = &eb
			done := make(chan error, 1)
			if err := c.Start(); err != nil {
				return
			}
			go func() { done <- c.Wait() }()
			var werr error
			timedOut := false
			select {
			case werr = <-done:
			case <-time.After(60 * time.Second):
				_ = c.Process.Kill()
				<-done
				timedOut = true
			}
			msg := lastLines(eb.Bytes(), "fatal error:")
			if timedOut {
				msg = "no answer within 60 s"
			}
			if (werr != nil && msg != "") || timedOut {
				where := lastLines(eb.Bytes(), "github.com/ohler55/ojg/")
				if i := strings.IndexByte(where, '('); i > 0 {
					where = where[:i] // the arguments are addresses
				}
				mu.Lock()
				cls := "fatal:"
				if *prop == "C06jp" {
					cls = "panic:fatal:" // not recoverable: worse than an escaped panic
					if timedOut {
						cls = "hang:process:"
					}
				}
				rp.Add(lib.Finding{Kind: "violation", Class: cls + strings.ReplaceAll(strings.TrimPrefix(msg, "fatal error: "), " ", "-"),
					What:   "the code under test kills the process (" + msg + ") in " + where,
					Replay: map[string]any{"case": l, "stream": "supervisor"}})
				mu.Unlock()
			}
		}(l)
	}
	wg.Wait()
	if len(rp.Findings) == 0 {
		os.Stderr.Write(errBuf.Bytes())
		return 3
	}
	rp.AddEval(int64(len(lines)), int64(len(lines)))
	rp.Rule = "the run was cut short by a fatal runtime error in the code under test (" + fatalMsg + "); the cases in flight were re-run one per process"
	rp.Notes = append(rp.Notes, "run cut short by: "+fatalMsg)
	for _, f := range rp.Findings {
		fmt.Printf("%s %s: %s\n", f.Kind, f.Class, f.What)
	}
	if *outPath != "" {
		if err := rp.Write(*outPath); err != nil {
			return 3
		}
	}
	return 0
}

// ---- running the real code ---------------------------------------------------------------------------------

func safe(f func() string) (out string) {
	defer func() {
		if r := recover(); r != nil {
			out = "\x00panic: " + fmt.Sprint(r)
		}
	}()
	return f()
}

func isPanic(s string) bool { return strings.HasPrefix(s, "\x00panic") }

func renderSorted(vs []any) string {
	ss := make([]string, len(vs))
	for i, v := range vs {
		ss[i] = lib.Render(v)
	}
	sort.Strings(ss)
	return strings.Join(ss, ";")
}

func evalExpr(x jp.Expr, data []any) []string {
	out := make([]string, len(data))
	for i, d := range data {
		d := d
		out[i] = safe(func() string { return renderSorted(x.Get(d)) })
		if isPanic(out[i]) {
			out[i] = "\x00panic" // the message may hold addresses
		}
	}
	return out
}

func evalScript(s *jp.Script, data []any) []string {
	out := make([]string, 0, 2*len(data))
	for _, d := range data {
		d := d
		m := safe(func() string { return fmt.Sprint(s.Match(d)) })
		if isPanic(m) {
			m = "\x00panic"
		}
		e := safe(func() string {
			r, _ := s.Eval([]any{}, d).([]any)
			return renderSorted(r)
		})
		if isPanic(e) {
			e = "\x00panic"
		}
		out = append(out, m, e)
	}
	return out
}

// overlap reports whether two evaluations that differed once can agree when repeated: then the evaluator
// is not deterministic on this input (results depend on map iteration order) and the difference says
// nothing about the two objects.
func overlap(a, b func() string) bool {
	as, bs := map[string]bool{}, map[string]bool{}
	for i := 0; i < 12; i++ {
		as[a()] = true
		bs[b()] = true
	}
	for k := range as {
		if bs[k] {
			return true
		}
	}
	return false
}

func sameStrings(a, b []string) (bool, int) {
	for i := range a {
		if a[i] != b[i] {
			return false, i
		}
	}
	return true, -1
}

var floatMark = []byte{1, 127, 2}

// jpFloat is the text jp writes for a float constant (appendFloat of jp/string.go, since b3b14ce).
func jpFloat(f float64) string {
	t := fmtFloat(f)
	if strings.ContainsAny(t, ".eNI") {
		return t
	}
	return t + ".0"
}

// canonFloats replaces every <mark>text<mark> of a model print of a PARSED object by
// FormatFloat(ParseFloat(text)).
func canonFloats(b []byte) []byte {
	if !bytes.Contains(b, floatMark) {
		return b
	}
	var out []byte
	for {
		i := bytes.Index(b, floatMark)
		if i < 0 {
			return append(out, b...)
		}
		j := bytes.Index(b[i+3:], floatMark)
		if j < 0 {
			return append(out, b...)
		}
		out = append(out, b[:i]...)
		f, _ := strconv.ParseFloat(string(b[i+3:i+3+j]), 64)
		out = append(out, jpFloat(f)...)
		lit := string(b[i+3 : i+3+j])
		b = b[i+j+6:]
		if !strings.ContainsAny(lit, ".eNI") && bytes.HasPrefix(b, []byte(".0")) {
			b = b[2:] // the model's own `.0` after a literal such as `1E` (read as 0 by ParseFloat)
		}
	}
}

// unhexModel decodes a model print; tagged = it is the print of a parsed object.
func unhexModel(s string, tagged ...bool) []byte {
	if s == "panic" {
		return []byte("\x00panic")
	}
	b, err := lib.UnhexF(s)
	if err != nil {
		return []byte("\x00badhex " + s)
	}
	if len(tagged) > 0 && tagged[0] {
		return canonFloats(b)
	}
	return b
}

// goText normalises a Go print for comparison with the model ("\x00panic: msg" -> "\x00panic").
func goText(s string) []byte {
	if isPanic(s) {
		return []byte("\x00panic")
	}
	return []byte(s)
}

// ---- one batch ------------------------------------------------------------------------------------------------

func processBatch(d *lib.Driver, batch []Case) error {
	var reqs []string
	items := make([]*work, len(batch))
	for i := range batch {
		w := prepare(&batch[i])
		w.first = len(reqs)
		reqs = append(reqs, w.reqs...)
		items[i] = w
	}
	t0 := time.Now()
	ans, err := d.Ask(reqs)
	if err != nil {
		return err
	}
	if os.Getenv("VERIF_JPTEXT_TIMING") != "" {
		fmt.Fprintln(os.Stderr, "TIMING ask", len(batch), time.Since(t0))
	}
	for _, w := range items {
		w.ans = ans[w.first : w.first+len(w.reqs)]
		for k, a := range w.ans {
			if a == "bad-op" {
				report("disagreement", "driver:bad-op", "the driver does not understand "+trunc(w.reqs[k], 200), w.c, nil)
			}
		}
		t1 := time.Now()
		w.judge()
		if os.Getenv("VERIF_JPTEXT_TIMING") != "" && time.Since(t1) > 200*time.Millisecond {
			fmt.Fprintln(os.Stderr, "TIMING judge", time.Since(t1), trunc(w.sEq, 300))
		}
	}
	return nil
}

type work struct {
	c     *Case
	reqs  []string
	first int
	ans   []string
	// expr
	x     jp.Expr
	texts [2]string
	// eqn
	e             *jp.Equation
	sEq, sSc, sFl string
	buildPanic    string
}

func (w *work) add(req string) int {
	w.reqs = append(w.reqs, req)
	return len(w.reqs) - 1
}

func prepare(c *Case) *work {
	w := &work{c: c}
	switch c.Kind {
	case "expr":
		w.buildPanic = safe(func() string { w.x = c.X.Build(); return "" })
		ast := wireOf(c.X)
		w.texts[0] = safe(func() string { return w.x.String() })
		w.texts[1] = safe(func() string { return w.x.BracketString() })
		w.add("xprint\t0\t" + ast)
		w.add("xprint\t1\t" + ast)
		w.add("xjudge\t0\t" + ast)
		w.add("xjudge\t1\t" + ast)
		w.add("xparse\t" + lib.HexF(goText(w.texts[0])))
		w.add("xparse\t" + lib.HexF(goText(w.texts[1])))
	case "bexpr":
		w.buildPanic = safe(func() string { w.x = c.X.Build(); return "" })
		ast := wireOf(c.X)
		w.texts[0] = safe(func() string { return w.x.String() })
		w.texts[1] = safe(func() string { return w.x.BracketString() })
		w.add("bxprint\t0\t" + ast)
		w.add("bxprint\t1\t" + ast)
		w.add("bxjudge\t0\t" + ast)
		w.add("bxjudge\t1\t" + ast)
		w.add("xparse\t" + lib.HexF(goText(w.texts[0])))
		w.add("xparse\t" + lib.HexF(goText(w.texts[1])))
	case "eqn":
		w.buildPanic = safe(func() string { w.e = c.E.Build(); return "" })
		ast := wireOf(c.E)
		w.sEq = safe(func() string { return w.e.String() })
		w.sSc = safe(func() string { return w.e.Script().String() })
		w.sFl = safe(func() string { return w.e.Filter().String() })
		w.add("eprint\t" + ast)
		w.add("ejudge\t" + ast)
		w.add("eparse\t" + lib.HexF(goText(w.sEq)))
		w.add("eparse\t" + lib.HexF(goText(w.sSc)))
		w.add("fparse\t" + lib.HexF(goText(w.sFl)))
	case "text", "c06":
		hx := lib.HexF(c.Text)
		w.add("xparse\t" + hx)
		w.add("eparse\t" + hx)
		w.add("fparse\t" + hx)
	}
	return w
}

func trunc(s string, n int) string {
	if len(s) > n {
		return s[:n] + "…"
	}
	return s
}

func report(kind, class, what string, c *Case, extra map[string]any) {
	r := map[string]any{"case": c.line(), "stream": c.Stream}
	for k, v := range extra {
		r[k] = v
	}
	rep.Add(lib.Finding{Kind: kind, Class: class, What: what, Replay: r})
}

// violation records an oracle failure; with a named deviation it is a known finding.
func violation(class, what string, devs string, c *Case, extra map[string]any) {
	r := map[string]any{"case": c.line(), "stream": c.Stream, "deviations": devs}
	for k, v := range extra {
		r[k] = v
	}
	if devs != "-" && devs != "" {
		for _, d := range strings.Split(devs, ",") {
			id := "C14-" + d
			if lib.HasKnown(knownList, id) {
				if !strings.Contains(devs, ",") {
					rep.Count("known.alone."+d, 1) // this deviation is the only one named for the object
					if os.Getenv("VERIF_DEBUG") == d {
						fmt.Fprintln(os.Stderr, "ALONE", d, class, r["text"], "|", r["reprint"], "|", r["error"], "|", c.line())
					}
				}
				rep.Add(lib.Finding{Kind: "known", Class: d + ":" + class, What: what, Replay: r, KnownID: id})
				return
			}
		}
	}
	rep.Add(lib.Finding{Kind: "violation", Class: class, What: what, Replay: r})
}

func q(b []byte) string { return fmt.Sprintf("%q", trunc(string(b), 300)) }

func (w *work) judge() {
	switch w.c.Kind {
	case "expr":
		w.judgeExpr()
	case "bexpr":
		w.judgeBExpr()
	case "eqn":
		w.judgeEqn()
	case "text":
		w.judgeText()
	case "c06":
		w.judgeText()
		w.judgeC06()
	}
}

// parseAnswer splits "ok h1 h2 …" / "err".
func parseAnswer(a string) (ok bool, fields []string) {
	f := strings.Fields(a)
	if len(f) == 0 || f[0] != "ok" {
		return false, nil
	}
	return true, f[1:]
}

func (w *work) judgeExpr() {
	c := w.c
	nontrivial := int64(0)
	if len(c.X) >= 2 {
		nontrivial = 1
	}
	rep.AddEval(1, nontrivial)
	if w.buildPanic != "" {
		report("violation", "expr:build-panic", "constructors panicked: "+w.buildPanic, c, nil)
		return
	}
	m := newMentions()
	m.expr(c.X)
	h := fnv.New64a()
	h.Write([]byte(c.line()))
	data := dataTrees(m, h.Sum64(), 4)
	var origEval []string
	for br := 0; br < 2; br++ {
		mode := [2]string{"String", "BracketString"}[br]
		text := goText(w.texts[br])
		// tie: print
		mprint := unhexModel(w.ans[br])
		if !bytes.Equal(mprint, text) {
			report("disagreement", "expr:print:"+mode, "model prints "+q(mprint)+", implementation "+q(text), c, nil)
		}
		jf := strings.Fields(w.ans[2+br])
		if len(jf) != 3 {
			continue
		}
		mrt, cons, devs := jf[0] == "1", jf[1] == "1", jf[2]
		if !cons {
			rep.Count("judge.not_constructible", 1)
		}
		if isPanic(w.texts[br]) {
			violation("expr:print-panic:"+mode, "printing panicked: "+w.texts[br], devs, c, nil)
			continue
		}
		if idx := atomic.AddInt64(&sampleCtr, 1); idx%5003 == 1 {
			rep.Sample(map[string]any{"case": trunc(c.line(), 200), "text": q(text), "model": q(mprint), "deviations": devs})
		}
		if br == 0 || w.texts[0] != w.texts[1] {
			keepSeed(text)
		}
		// the real round trip
		y, err := jp.ParseString(string(text))
		// tie: parse
		mok, mf := parseAnswer(w.ans[4+br])
		if mok != (err == nil) {
			if !(err != nil && strings.Contains(err.Error(), "error parsing regexp")) {
				report("disagreement", "expr:parse-accept:"+mode, fmt.Sprintf("model accepts=%v, implementation error=%v on %s", mok, err, q(text)), c, nil)
			}
		} else if mok && len(mf) == 2 {
			gs, gb := goText(safe(func() string { return y.String() })), goText(safe(func() string { return y.BracketString() }))
			if !bytes.Equal(unhexModel(mf[0], true), gs) || !bytes.Equal(unhexModel(mf[1], true), gb) {
				report("disagreement", "expr:parse-reprint:"+mode, "re-parsed "+q(text)+": model prints "+q(unhexModel(mf[0], true))+" / "+q(unhexModel(mf[1], true))+", implementation "+q(gs)+" / "+q(gb), c, nil)
			}
		}
		// oracle
		verdict := ""
		extra := map[string]any{"mode": mode, "text": string(text), "text_hex": lib.HexF(text)}
		switch {
		case err != nil:
			verdict = "parse-error"
			extra["error"] = err.Error()
		default:
			var again string
			if br == 0 {
				again = safe(func() string { return y.String() })
			} else {
				again = safe(func() string { return y.BracketString() })
			}
			if again != string(text) {
				verdict = "print-differs"
				extra["reprint"] = again
			} else if canonExpr(y) != canonExpr(w.x) {
				verdict = "structure-differs"
				extra["original"] = canonExpr(w.x)
				extra["reparsed"] = canonExpr(y)
			}
			if origEval == nil {
				origEval = evalExpr(w.x, data)
			}
			if same, at := sameStrings(origEval, evalExpr(y, data)); !same {
				if overlap(func() string { return evalExpr(w.x, data[at:at+1])[0] }, func() string { return evalExpr(y, data[at:at+1])[0] }) {
					// jp.Get itself is not a function of (expression, data) here (map iteration order): not C14's subject
					rep.Count("oracle.evaluator_nondeterministic", 1)
				} else {
					if verdict == "" {
						verdict = "eval-differs"
					}
					extra["data"] = lib.Render(data[at])
				}
			}
		}
		rep.Count("oracle.expr."+mode+"."+map[bool]string{true: "ok", false: "fails"}[verdict == ""], 1)
		if verdict != "" {
			violation("expr:"+verdict+":"+mode, mode+"() "+q(text)+" does not round-trip: "+verdict, devs, c, extra)
		}
		// the Lean-side judgement of the model agrees with what the real code did
		if mrt != (verdict == "") && verdict != "eval-differs" {
			report("disagreement", "expr:verdict:"+mode, fmt.Sprintf("model round-trips=%v, implementation verdict %q for %s", mrt, verdict, q(text)), c, nil)
		}
		if !mrt && devs == "-" {
			report("disagreement", "expr:unexplained:"+mode, "the model does not round-trip "+q(text)+" and Spec.lean names no deviation", c, nil)
		}
		if mrt && devs != "-" {
			rep.Count("judge.deviation_named_but_round_trips", 1)
			rep.Count("judge.named_but_round_trips."+devs, 1)
			if os.Getenv("VERIF_DEBUG") != "" {
				fmt.Fprintln(os.Stderr, "NAMED-BUT-OK", devs, string(text), c.line())
			}
		}
	}
}

var sampleCtr int64

func (w *work) judgeEqn() {
	c := w.c
	rep.AddEval(1, 1)
	if w.buildPanic != "" {
		report("violation", "eqn:build-panic", "constructors panicked: "+w.buildPanic, c, nil)
		return
	}
	m := newMentions()
	m.eqn(c.E)
	h := fnv.New64a()
	h.Write([]byte(c.line()))
	data := dataTrees(m, h.Sum64(), 4)
	// tie: print
	pf := strings.Fields(w.ans[0])
	if len(pf) != 3 {
		return
	}
	texts := [3][]byte{goText(w.sEq), goText(w.sSc), goText(w.sFl)}
	names := [3]string{"Equation", "Script", "Filter"}
	for i := 0; i < 3; i++ {
		if mp := unhexModel(pf[i]); !bytes.Equal(mp, texts[i]) {
			report("disagreement", "eqn:print:"+names[i], "model prints "+q(mp)+", implementation "+q(texts[i]), c, nil)
		}
	}
	jf := strings.Fields(w.ans[1])
	if len(jf) != 5 || len(jf[0]) != 3 {
		return
	}
	if jf[1] != "1" {
		rep.Count("judge.not_constructible", 1)
	}
	if idx := atomic.AddInt64(&sampleCtr, 1); idx%5003 == 1 {
		rep.Sample(map[string]any{"case": trunc(c.line(), 200), "equation": q(texts[0]), "script": q(texts[1]), "filter": q(texts[2]), "deviations": jf[2:]})
	}
	origScript := w.e.Script()
	origFilter := w.e.Filter()
	var evalS, evalF []string
	for i := 0; i < 3; i++ {
		text := texts[i]
		mrt, devs := jf[0][i] == '1', jf[2+i]
		if isPanic(string(text)) {
			violation("eqn:print-panic:"+names[i], "printing panicked", devs, c, nil)
			continue
		}
		keepSeed(text)
		// the real round trip
		var (
			again   string
			tmplNew []any
			tmplOld []any
			scNew   *jp.Script
			perr    string
		)
		switch i {
		case 0:
			var e2 *jp.Equation
			perr = safe(func() string { e2 = jp.MustParseEquation(string(text)); return "" })
			if perr == "" {
				again = safe(func() string { return e2.String() })
				f2 := e2.Filter() // the equation has no evaluator of its own: plain buildScript
				scNew = &f2.Script
				tmplNew, tmplOld = templateOf(&f2.Script), templateOf(&origFilter.Script)
			}
		case 1:
			s2, err := jp.NewScript(string(text))
			if err != nil {
				perr = err.Error()
			} else {
				again = safe(func() string { return s2.String() })
				scNew = s2
				tmplNew, tmplOld = templateOf(s2), templateOf(origScript)
			}
		case 2:
			f2, err := jp.NewFilter(string(text))
			if err != nil {
				perr = err.Error()
			} else {
				again = safe(func() string { return f2.String() })
				scNew = &f2.Script
				tmplNew, tmplOld = templateOf(&f2.Script), templateOf(&origFilter.Script)
			}
		}
		// tie: parse
		mok, mf := parseAnswer(w.ans[2+i])
		if mok != (perr == "") {
			if !strings.Contains(perr, "error parsing regexp") {
				report("disagreement", "eqn:parse-accept:"+names[i], fmt.Sprintf("model accepts=%v, implementation error=%q on %s", mok, perr, q(text)), c, nil)
			}
		} else if mok {
			var mp []byte
			switch i {
			case 0:
				mp = unhexModel(mf[0], true)
			case 1:
				mp = unhexModel(mf[1], true)
			case 2:
				mp = unhexModel(mf[0], true)
			}
			if !bytes.Equal(mp, goText(again)) {
				report("disagreement", "eqn:parse-reprint:"+names[i], "re-parsed "+q(text)+": model prints "+q(mp)+", implementation "+q(goText(again)), c, nil)
			}
		}
		// oracle
		verdict := ""
		extra := map[string]any{"form": names[i], "text": string(text), "text_hex": lib.HexF(text)}
		if perr != "" {
			verdict = "parse-error"
			extra["error"] = perr
		} else {
			if again != string(text) {
				verdict = "print-differs"
				extra["reprint"] = again
			} else if canonTemplate(tmplNew) != canonTemplate(tmplOld) {
				verdict = "structure-differs"
				extra["original"] = canonTemplate(tmplOld)
				extra["reparsed"] = canonTemplate(tmplNew)
			}
			var orig []string
			if i == 1 {
				if evalS == nil {
					evalS = evalScript(origScript, data)
				}
				orig = evalS
			} else {
				if evalF == nil {
					evalF = evalScript(&origFilter.Script, data)
				}
				orig = evalF
			}
			if same, at := sameStrings(orig, evalScript(scNew, data)); !same {
				oldSc := origScript
				if i != 1 {
					oldSc = &origFilter.Script
				}
				one := data[at/2 : at/2+1]
				if overlap(func() string { return strings.Join(evalScript(oldSc, one), "|") }, func() string { return strings.Join(evalScript(scNew, one), "|") }) {
					rep.Count("oracle.evaluator_nondeterministic", 1)
				} else {
					if verdict == "" {
						verdict = "eval-differs"
					}
					extra["data"] = lib.Render(data[at/2])
				}
			}
		}
		rep.Count("oracle.eqn."+names[i]+"."+map[bool]string{true: "ok", false: "fails"}[verdict == ""], 1)
		if c.Stream == "deep" {
			// what the deep stream compared and how it ended, per text form
			rep.Count("deep.text_bytes."+bucket(len(text), 32, 64, 128, 256, 512, 1024), 1)
			rep.Count("deep.parse."+names[i]+"."+map[bool]string{true: "model_and_impl_accept", false: "other"}[mok && perr == ""], 1)
			rep.Count("deep.oracle."+names[i]+"."+map[bool]string{true: "ok", false: "fails:" + verdict}[verdict == ""], 1)
		}
		if verdict != "" {
			violation("eqn:"+verdict+":"+names[i], names[i]+" text "+q(text)+" does not round-trip: "+verdict, devs, c, extra)
		}
		if mrt != (verdict == "") && verdict != "eval-differs" {
			report("disagreement", "eqn:verdict:"+names[i], fmt.Sprintf("model round-trips=%v, implementation verdict %q for %s", mrt, verdict, q(text)), c, nil)
		}
		if !mrt && devs == "-" {
			report("disagreement", "eqn:unexplained:"+names[i], "the model does not round-trip "+q(text)+" and Spec.lean names no deviation", c, nil)
		}
		if mrt && devs != "-" {
			rep.Count("judge.deviation_named_but_round_trips", 1)
			rep.Count("judge.named_but_round_trips."+names[i]+"."+devs, 1)
			if os.Getenv("VERIF_DEBUG") != "" {
				fmt.Fprintln(os.Stderr, "NAMED-BUT-OK", names[i], devs, string(text), c.line())
			}
		}
	}
}

// judgeText: the parser tie on arbitrary text (accept/reject and the print of what was read).
func (w *work) judgeText() {
	c := w.c
	nontrivial := int64(0)
	if len(c.Text) >= 2 {
		nontrivial = 1
	}
	rep.AddEval(1, nontrivial)
	text := string(c.Text)
	// expression
	y, err := jp.ParseString(text)
	mok, mf := parseAnswer(w.ans[0])
	rep.Count("text.expr."+map[bool]string{true: "accepted", false: "rejected"}[err == nil], 1)
	if mok != (err == nil) {
		if !(err != nil && strings.Contains(err.Error(), "error parsing regexp")) {
			report("disagreement", "text:expr-accept", fmt.Sprintf("model accepts=%v, implementation error=%v on %s", mok, err, q(c.Text)), c, nil)
		}
	} else if mok && len(mf) == 2 {
		gs, gb := goText(safe(func() string { return y.String() })), goText(safe(func() string { return y.BracketString() }))
		if !bytes.Equal(unhexModel(mf[0], true), gs) || !bytes.Equal(unhexModel(mf[1], true), gb) {
			report("disagreement", "text:expr-reprint", "parsed "+q(c.Text)+": model prints "+q(unhexModel(mf[0], true))+" / "+q(unhexModel(mf[1], true))+", implementation "+q(gs)+" / "+q(gb), c, nil)
		}
	}
	// equation
	var e2 *jp.Equation
	perr := safe(func() string { e2 = jp.MustParseEquation(text); return "" })
	mok, mf = parseAnswer(w.ans[1])
	rep.Count("text.eqn."+map[bool]string{true: "accepted", false: "rejected"}[perr == ""], 1)
	if mok != (perr == "") {
		if !strings.Contains(perr, "error parsing regexp") {
			report("disagreement", "text:eqn-accept", fmt.Sprintf("model accepts=%v, implementation error=%q on %s", mok, trunc(perr, 200), q(c.Text)), c, nil)
		}
	} else if mok && len(mf) == 3 {
		g := [3][]byte{goText(safe(func() string { return e2.String() })), goText(safe(func() string { return e2.Script().String() })),
			goText(safe(func() string { return e2.Filter().String() }))}
		for i := 0; i < 3; i++ {
			if !bytes.Equal(unhexModel(mf[i], true), g[i]) {
				report("disagreement", "text:eqn-reprint", fmt.Sprintf("parsed %s: form %d: model prints %s, implementation %s", q(c.Text), i, q(unhexModel(mf[i], true)), q(g[i])), c, nil)
				break
			}
		}
	}
	// filter
	f2, ferr := jp.NewFilter(text)
	mok, mf = parseAnswer(w.ans[2])
	if mok != (ferr == nil) {
		if !(ferr != nil && strings.Contains(ferr.Error(), "error parsing regexp")) {
			report("disagreement", "text:filter-accept", fmt.Sprintf("model accepts=%v, implementation error=%v on %s", mok, ferr, q(c.Text)), c, nil)
		}
	} else if mok && len(mf) == 1 {
		g := goText(safe(func() string { return f2.String() }))
		if !bytes.Equal(unhexModel(mf[0], true), g) {
			report("disagreement", "text:filter-reprint", "parsed "+q(c.Text)+": model prints "+q(unhexModel(mf[0], true))+", implementation "+q(g), c, nil)
		}
	}
}

func runReplay() {
	data, err := os.ReadFile(*replay)
	if err != nil {
		fmt.Fprintln(os.Stderr, err)
		os.Exit(3)
	}
	var r struct {
		Replay map[string]any `json:"replay"`
	}
	_ = json.Unmarshal(data, &r)
	line, _ := r.Replay["case"].(string)
	c, err := parseCaseLine(line)
	if err != nil {
		fmt.Fprintln(os.Stderr, "bad replay case:", err)
		os.Exit(3)
	}
	c.Stream = "replay"
	d, err := lib.StartDriver(*driver)
	if err != nil {
		fmt.Fprintln(os.Stderr, err)
		os.Exit(3)
	}
	defer d.Close()
	if err := processBatch(d, []Case{*c}); err != nil {
		fmt.Fprintln(os.Stderr, err)
		os.Exit(3)
	}
	rep.Rule = "replay of one case"
	_ = rep.Write(*outPath)
	for _, f := range rep.Findings {
		fmt.Printf("%s %s: %s\n", f.Kind, f.Class, f.What)
	}
}
