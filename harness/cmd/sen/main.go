// Correspondence and oracle harness for the SEN family.
//
//	-prop C10     SEN writer / parser round trip (strings, keys, trees x options x writers)
//	-prop C03sen  sen.Parser.Parse, ParseReader (every chunking) and sen.Tokenizer(+alt.Builder) agree
//	-prop C06sen  no SEN input makes sen.Parse / ParseReader / Tokenize panic or hang
//	-prop C07sen  a reused sen.Parser behaves like a fresh one
//
// For every case the real code runs first (the sizes of the Read results are recorded), then the
// Lean driver (drv_sen: the machine model over the regenerated sen/maps.go, the model of
// AppendSENString over the regenerated senMap, the tight writer) is asked about the same case.
//
//	disagreement: model outcome != implementation outcome            (the tie)
//	violation:    implementation outcome contradicts the property     (the oracle)
//	known:        a violation explained by an entry of known_findings.json (precise predicate)
package main

import (
	"encoding/json"
	"flag"
	"fmt"
	"hash/fnv"
	"os"
	"runtime/pprof"
	"strings"
	"sync"
	"sync/atomic"
	"time"

	"verif/harness/lib"
)

var (
	prop    = flag.String("prop", "C10", "property id")
	tier    = flag.String("tier", "quick", "quick|thorough")
	seed    = flag.Uint64("seed", 1, "PRNG seed")
	driver  = flag.String("driver", "", "path of drv_sen")
	outPath = flag.String("out", "", "report path")
	replay  = flag.String("replay", "", "replay file")
	corpus  = flag.String("corpus", "", "corpus file: one hex input per line")
	known   = flag.String("known", "", "known_findings.json")
	workers = flag.Int("workers", 16, "parallel workers")
)

var rep *lib.Report
var knownList []lib.Known

type job func(d *lib.Driver, w int) error

// watchdog: a worker that sits on one case for too long is a non-termination finding
type watchSlot struct {
	mu   sync.Mutex
	in   []byte
	what string
	t    time.Time
}

var slots []watchSlot

func watchBegin(w int, in []byte, what string) {
	s := &slots[w]
	s.mu.Lock()
	s.in, s.what, s.t = in, what, time.Now()
	s.mu.Unlock()
}

func watchEnd(w int) {
	s := &slots[w]
	s.mu.Lock()
	s.t = time.Time{}
	s.mu.Unlock()
}

func watchdog(limit time.Duration) {
	for {
		time.Sleep(time.Second)
		for i := range slots {
			s := &slots[i]
			s.mu.Lock()
			stuck := !s.t.IsZero() && time.Since(s.t) > limit
			in, what := s.in, s.what
			s.mu.Unlock()
			if stuck {
				add("violation", "hang:"+what, "the call did not return within "+limit.String(), in,
					map[string]any{"call": what})
				rep.Notes = append(rep.Notes, "run aborted by the watchdog")
				_ = rep.Write(*outPath)
				// an aborted run is never a result: the runner treats the non-zero exit as a machinery failure and
				// shows this text (the call and the input that did not return)
				fmt.Fprintf(os.Stderr, "WATCHDOG: %s did not return within %s; input_hex=%s; run aborted (a hang of the code under test — property C06 — or of the harness)\n",
					what, limit, lib.HexF(in))
				os.Exit(4)
			}
		}
	}
}

func runPool(produce func(emit func(job))) {
	n := *workers
	slots = make([]watchSlot, n)
	jobs := make(chan job, 64)
	var wg sync.WaitGroup
	var fatal atomic.Value
	for w := 0; w < n; w++ {
		wg.Add(1)
		go func(w int) {
			defer wg.Done()
			d, err := lib.StartDriver(*driver)
			if err != nil {
				fatal.Store(err.Error())
				for range jobs {
				}
				return
			}
			defer d.Close()
			for j := range jobs {
				if fatal.Load() != nil {
					continue
				}
				if err := j(d, w); err != nil {
					fatal.Store(err.Error())
				}
			}
		}(w)
	}
	go watchdog(60 * time.Second)
	produce(func(j job) { jobs <- j })
	close(jobs)
	wg.Wait()
	if e := fatal.Load(); e != nil {
		fmt.Fprintln(os.Stderr, "harness failure:", e)
		os.Exit(3)
	}
}

func trunc(in []byte) []byte {
	if len(in) > 200 {
		return append(append([]byte{}, in[:100]...), append([]byte("…"), in[len(in)-80:]...)...)
	}
	return in
}

// distinctCase: 1 if this case (identified by the parts) has not been counted before, else 0. A 64-bit hash is
// folded into a bit set (2^26 bits in the quick tier, 2^31 in the thorough tier); a collision counts as a
// duplicate, so the number reported as distinct_nontrivial is a lower bound of the distinct cases.
var (
	distinctBits []uint64
	distinctMask uint64
	distinctOnce sync.Once
)

func distinctCase(parts ...[]byte) int64 {
	distinctOnce.Do(func() {
		n := uint64(1) << 26
		if *tier == "thorough" {
			n = 1 << 31
		}
		distinctBits = make([]uint64, n/64)
		distinctMask = n - 1
	})
	h := fnv.New64a()
	for _, p := range parts {
		h.Write(p)
		h.Write([]byte{0})
	}
	k := h.Sum64()
	k ^= k >> 33
	k &= distinctMask
	w, bit := &distinctBits[k/64], uint64(1)<<(k%64)
	for {
		old := atomic.LoadUint64(w)
		if old&bit != 0 {
			return 0
		}
		if atomic.CompareAndSwapUint64(w, old, old|bit) {
			return 1
		}
	}
}

// add records a finding.
func add(kind, class, what string, in []byte, extra map[string]any) {
	r := map[string]any{"input_hex": lib.HexF(in), "input_text": fmt.Sprintf("%q", string(trunc(in)))}
	for k, v := range extra {
		r[k] = v
	}
	rep.Add(lib.Finding{Kind: kind, Class: class, What: what, Replay: r})
}

// addKnown records a violation that a listed known finding explains; if the id is not listed (the
// entry was removed because the defect was repaired) it is reported as a plain violation.
func addKnown(id, class, what string, in []byte, extra map[string]any) {
	r := map[string]any{"input_hex": lib.HexF(in), "input_text": fmt.Sprintf("%q", string(trunc(in)))}
	for k, v := range extra {
		r[k] = v
	}
	if lib.HasKnown(knownList, id) {
		rep.Add(lib.Finding{Kind: "known", Class: class, What: what, Replay: r, KnownID: id})
		return
	}
	rep.Add(lib.Finding{Kind: "violation", Class: class, What: what + " (was known finding " + id + ", no longer listed)", Replay: r})
}

func on(name string) bool {
	sel := os.Getenv("VERIF_STREAMS")
	return sel == "" || strings.Contains(","+sel+",", ","+name+",")
}

func readReplay() map[string]any {
	data, err := os.ReadFile(*replay)
	if err != nil {
		fmt.Fprintln(os.Stderr, err)
		os.Exit(3)
	}
	var r struct {
		Replay map[string]any `json:"replay"`
	}
	if err := json.Unmarshal(data, &r); err != nil || r.Replay == nil {
		var flat map[string]any
		_ = json.Unmarshal(data, &flat)
		return flat
	}
	return r.Replay
}

func main() {
	flag.Parse()
	if pf := os.Getenv("VERIF_PPROF"); pf != "" {
		f, _ := os.Create(pf)
		_ = pprof.StartCPUProfile(f)
		defer pprof.StopCPUProfile()
	}
	rep = lib.NewReport(*prop, *tier, *seed)
	knownList = lib.LoadKnown(*known, *prop)
	switch *prop {
	case "C10":
		runC10()
	case "C03sen", "C06sen":
		runStreams()
	case "C07sen":
		runC07()
	default:
		fmt.Fprintln(os.Stderr, "unknown property", *prop)
		os.Exit(3)
	}
	if err := rep.Write(*outPath); err != nil {
		fmt.Fprintln(os.Stderr, err)
		os.Exit(3)
	}
	if *replay != "" {
		for _, f := range rep.Findings {
			fmt.Printf("%s %s: %s\n", f.Kind, f.Class, f.What)
		}
	}
}
