package main

import (
	"bytes"
	"encoding/json"
	"errors"
	"fmt"
	"io"
	"math"
	"sort"
	"strings"

	"github.com/ohler55/ojg/alt"
	"github.com/ohler55/ojg/gen"
	"github.com/ohler55/ojg/oj"
	"github.com/ohler55/ojg/sen"

	"verif/harness/lib"
)

// chunkReader delivers the input in the given chunk lengths (the rest in one piece), then io.EOF; a chunk length 0 is
// an empty read (0, nil).
type chunkReader struct {
	data   []byte
	chunks []int
	ci     int
}

func (r *chunkReader) Read(p []byte) (int, error) {
	if len(r.data) == 0 {
		return 0, io.EOF
	}
	n := len(r.data)
	if r.ci < len(r.chunks) && r.chunks[r.ci] == 0 {
		// an EMPTY read: (0, nil), which io.Reader allows; it decides nothing (the model is given the non-empty reads)
		r.ci++
		return 0, nil
	}
	if r.ci < len(r.chunks) && r.chunks[r.ci] < n {
		n = r.chunks[r.ci]
	}
	r.ci++
	if n > len(p) {
		n = len(p)
	}
	if n <= 0 {
		n = 1
	}
	copy(p, r.data[:n])
	r.data = r.data[n:]
	return n, nil
}

// recReader records the size of every Read result so that the model can be given the same buffers.
type recReader struct {
	r   io.Reader
	got *[]int
}

func (r *recReader) Read(p []byte) (int, error) {
	n, err := r.r.Read(p)
	if n > 0 {
		*r.got = append(*r.got, n)
	}
	return n, err
}

func rd(in []byte, chunks []int, got *[]int) io.Reader {
	if chunks == nil {
		return &recReader{bytes.NewReader(in), got}
	}
	return &recReader{&chunkReader{data: append([]byte{}, in...), chunks: chunks}, got}
}

// render writes a parsed value in the canonical form of JV.render; a gen.Key that leaks into a
// result is N(<hex>) as in the model (Item.toJV).
func render(v any) string {
	var sb strings.Builder
	renderTo(&sb, v)
	return sb.String()
}

func renderTo(sb *strings.Builder, v any) {
	switch t := v.(type) {
	case nil:
		sb.WriteString("n")
	case bool:
		if t {
			sb.WriteString("t")
		} else {
			sb.WriteString("f")
		}
	case int64:
		fmt.Fprintf(sb, "I(%d)", t)
	case int:
		fmt.Fprintf(sb, "I(%d)", t)
	case uint64:
		fmt.Fprintf(sb, "I(%d)", t)
	case float64:
		fmt.Fprintf(sb, "F(%016x)", math.Float64bits(t))
	case json.Number:
		fmt.Fprintf(sb, "B(%s)", lib.HexF([]byte(t)))
	case string:
		fmt.Fprintf(sb, "S(%s)", lib.HexF([]byte(t)))
	case gen.Key:
		fmt.Fprintf(sb, "N(%s)", lib.HexF([]byte(t)))
	case []any:
		sb.WriteByte('[')
		for i, x := range t {
			if i > 0 {
				sb.WriteByte(',')
			}
			renderTo(sb, x)
		}
		sb.WriteByte(']')
	case map[string]any:
		keys := make([]string, 0, len(t))
		for k := range t {
			keys = append(keys, k)
		}
		sort.Strings(keys)
		sb.WriteByte('{')
		for i, k := range keys {
			if i > 0 {
				sb.WriteByte(',')
			}
			fmt.Fprintf(sb, "K(%s)", lib.HexF([]byte(k)))
			renderTo(sb, t[k])
		}
		sb.WriteByte('}')
	default:
		fmt.Fprintf(sb, "?(%T)", v)
	}
}

// Outcome of one front-end on one input.
type Outcome struct {
	OK    bool
	Tree  string // parser: documents ';' separated; tokenizer: callbacks ',' separated
	Built string // tokenizer: the documents rebuilt with alt.Builder, ';' separated
	Line  int
	Col   int
	Kind  string
	Msg   string
	Panic string
}

func (o Outcome) String() string {
	if o.Panic != "" {
		return "panic " + o.Panic
	}
	if o.OK {
		return "ok " + o.Tree
	}
	return fmt.Sprintf("err %d %d %s", o.Line, o.Col, o.Kind)
}

func errKind(msg string) string {
	switch {
	case strings.HasPrefix(msg, "unexpected object close"):
		return "objclose"
	case strings.HasPrefix(msg, "unexpected array close"):
		return "arrclose"
	case strings.HasPrefix(msg, "unexpected function close"):
		return "fnclose"
	case strings.HasPrefix(msg, "not closed"):
		return "notclosed"
	case strings.HasPrefix(msg, "incomplete JSON"):
		return "incomplete"
	case strings.HasPrefix(msg, "expected a key"):
		return "expectedkey"
	case strings.HasPrefix(msg, "expected a colon"):
		return "colon"
	case strings.HasPrefix(msg, "expected a value"):
		return "expectedvalue"
	case strings.HasPrefix(msg, "expected a string before"):
		return "plusnostring"
	case strings.HasPrefix(msg, "invalid number"):
		return "number"
	case strings.HasPrefix(msg, "invalid JSON character"):
		return "strchar"
	case strings.HasPrefix(msg, "invalid JSON escape"):
		return "escape"
	case strings.HasPrefix(msg, "invalid JSON unicode"):
		return "unicode"
	case strings.HasPrefix(msg, "extra characters"):
		return "extra"
	case strings.HasPrefix(msg, "unexpected character"):
		return "byte"
	case strings.HasPrefix(msg, "expected BOM"):
		return "bom"
	case strings.HasPrefix(msg, "runtime error"), strings.HasPrefix(msg, "interface conversion"),
		strings.HasPrefix(msg, "assignment to entry in nil map"):
		return "fault"
	}
	return "other"
}

func fromErr(err error) Outcome {
	var pe *oj.ParseError
	if errors.As(err, &pe) {
		return Outcome{Line: pe.Line, Col: pe.Column, Kind: errKind(pe.Message), Msg: pe.Message}
	}
	msg := err.Error()
	if strings.HasPrefix(msg, "expected BOM at 1:3") {
		return Outcome{Line: 1, Col: 3, Kind: "bom", Msg: msg}
	}
	var l, c int
	if i := strings.LastIndex(msg, " at "); i >= 0 {
		if _, e := fmt.Sscanf(msg[i+4:], "%d:%d", &l, &c); e == nil {
			return Outcome{Line: l, Col: c, Kind: errKind(msg[:i]), Msg: msg}
		}
	}
	return Outcome{Line: -1, Col: -1, Kind: errKind(msg), Msg: msg}
}

func guard(f func() Outcome) (o Outcome) {
	defer func() {
		if r := recover(); r != nil {
			o = Outcome{Panic: strings.ReplaceAll(fmt.Sprint(r), " ", "_")}
		}
	}()
	return f()
}

// evHandler records the tokenizer callbacks in the model's notation and rebuilds the documents with
// alt.Builder (the route property C03 names).
type evHandler struct {
	evs   []string
	b     alt.Builder
	key   *string
	depth int
	docs  []string
	berr  string
}

func (h *evHandler) k() []string {
	if h.key != nil {
		k := *h.key
		h.key = nil
		return []string{k}
	}
	return nil
}

func (h *evHandler) build(f func()) {
	if h.berr != "" {
		return
	}
	defer func() {
		if r := recover(); r != nil {
			h.berr = strings.ReplaceAll(fmt.Sprint(r), " ", "_")
		}
	}()
	f()
}

func (h *evHandler) val(v any) {
	h.evs = append(h.evs, render(v))
	h.build(func() {
		if h.depth == 0 {
			h.docs = append(h.docs, render(v))
			h.key = nil
			return
		}
		if e := h.b.Value(v, h.k()...); e != nil {
			h.berr = strings.ReplaceAll(e.Error(), " ", "_")
		}
	})
}
func (h *evHandler) Null()           { h.val(nil) }
func (h *evHandler) Bool(b bool)     { h.val(b) }
func (h *evHandler) Int(i int64)     { h.val(i) }
func (h *evHandler) Float(f float64) { h.val(f) }
func (h *evHandler) Number(s string) { h.val(json.Number(s)) }
func (h *evHandler) String(s string) { h.val(s) }
func (h *evHandler) Key(s string) {
	h.evs = append(h.evs, "K("+lib.HexF([]byte(s))+")")
	h.key = &s
}
func (h *evHandler) ObjectStart() {
	h.evs = append(h.evs, "{")
	h.build(func() {
		if h.depth == 0 {
			h.b.Reset()
		}
		if e := h.b.Object(h.k()...); e != nil {
			h.berr = strings.ReplaceAll(e.Error(), " ", "_")
		}
	})
	h.depth++
}
func (h *evHandler) ArrayStart() {
	h.evs = append(h.evs, "[")
	h.build(func() {
		if h.depth == 0 {
			h.b.Reset()
		}
		if e := h.b.Array(h.k()...); e != nil {
			h.berr = strings.ReplaceAll(e.Error(), " ", "_")
		}
	})
	h.depth++
}
func (h *evHandler) end(c string) {
	h.evs = append(h.evs, c)
	h.depth--
	h.build(func() {
		h.key = nil
		if h.depth == 0 {
			h.b.PopAll()
			h.docs = append(h.docs, render(h.b.Result()))
		} else {
			h.b.Pop()
		}
	})
}
func (h *evHandler) ObjectEnd() { h.end("}") }
func (h *evHandler) ArrayEnd()  { h.end("]") }

// the token functions the harness registers with option F (the model has the same three: harnessFn)
func addFuncs(p *sen.Parser) {
	p.AddTokenFunc("cnt", func(args ...any) any { return int64(len(args)) })
	p.AddTokenFunc("lst", func(args ...any) any { return append([]any{}, args...) })
	p.AddTokenFunc("nul", func(args ...any) any { return nil })
}

type runSpec struct {
	tok    bool  // sen.Tokenizer instead of sen.Parser
	reader bool  // io.Reader entry point
	multi  bool  // callback / OnlyOne=false
	funcs  bool  // token functions registered (parser)
	chunks []int // requested chunking (nil = bytes.Reader)
}

func (r runSpec) name() string {
	n := "sen.Parser.Parse"
	switch {
	case r.tok && r.reader:
		n = "sen.Tokenizer.Load"
	case r.tok:
		n = "sen.Tokenizer.Parse"
	case r.reader:
		n = "sen.Parser.ParseReader"
	}
	return n
}

func (r runSpec) mode() string {
	if r.multi {
		return "multi"
	}
	return "single"
}

// modelKey is the driver request (without the input) for a run whose reader delivered `reads`.
func (r runSpec) modelKey(reads []int, extra string) string {
	fe := "P"
	if r.tok {
		fe = "T"
	}
	o := extra
	if r.reader {
		o += "r"
	}
	if r.funcs {
		o += "F"
	}
	if o == "" {
		o = "-"
	}
	ch := "-"
	if r.reader {
		ch = chunkStr(reads)
	}
	return "run\tsen\t" + fe + "\t" + r.mode() + "\t" + o + "\t" + ch
}

func chunkStr(reads []int) string {
	if len(reads) == 0 {
		return "-"
	}
	var sb strings.Builder
	for i, n := range reads {
		if i > 0 {
			sb.WriteByte(',')
		}
		fmt.Fprint(&sb, n)
	}
	return sb.String()
}

// runImpl runs one entry point on a FRESH instance.
func runImpl(in []byte, r runSpec, reads *[]int) Outcome {
	if r.tok {
		return guard(func() Outcome {
			t := sen.Tokenizer{OnlyOne: !r.multi}
			h := &evHandler{}
			var err error
			if r.reader {
				err = t.Load(rd(in, r.chunks, reads), h)
			} else {
				err = t.Parse(in, h)
			}
			if err != nil {
				o := fromErr(err)
				o.Tree = strings.Join(h.evs, ",")
				return o
			}
			o := Outcome{OK: true, Tree: strings.Join(h.evs, ","), Built: strings.Join(h.docs, ";")}
			if h.berr != "" {
				o.Built = "builder:" + h.berr
			}
			return o
		})
	}
	return guard(func() Outcome {
		var p sen.Parser
		if r.funcs {
			addFuncs(&p)
		}
		return parseOn(&p, in, r, reads)
	})
}

// parseOn runs Parse/ParseReader on the given instance.
func parseOn(p *sen.Parser, in []byte, r runSpec, reads *[]int) Outcome {
	var docs []string
	var v any
	var err error
	var args []any
	if r.multi {
		args = append(args, func(x any) { docs = append(docs, render(x)) })
	}
	if r.reader {
		v, err = p.ParseReader(rd(in, r.chunks, reads), args...)
	} else {
		v, err = p.Parse(in, args...)
	}
	if err != nil {
		return fromErr(err)
	}
	if r.multi {
		return Outcome{OK: true, Tree: strings.Join(docs, ";")}
	}
	return Outcome{OK: true, Tree: render(v)}
}

// modelAns is a parsed driver answer.
type modelAns struct {
	raw   string
	ok    bool
	body  string // documents / callbacks, floats as bits
	line  string
	col   string
	kind  string
	feat  string
	plus  bool
	lsk   string // lastStrKey the instance is left with (hex)
	lk    string // lastKey the instance is left with (hex)
	fault bool
}

func parseModel(ans string) modelAns {
	m := modelAns{raw: ans}
	parts := strings.Split(ans, "|")
	if len(parts) >= 2 {
		m.feat = parts[1]
		if m.feat == "-" {
			m.feat = ""
		}
	}
	if len(parts) >= 3 {
		m.plus = parts[2] == "1"
	}
	m.lsk = "-"
	if len(parts) >= 4 {
		m.lsk = parts[3]
	}
	m.lk = "-"
	if len(parts) >= 5 {
		m.lk = parts[4]
	}
	head := parts[0]
	if strings.HasPrefix(head, "ok") {
		m.ok = true
		m.body = lib.FloatTextToBits(strings.TrimPrefix(strings.TrimPrefix(head, "ok"), " "))
		return m
	}
	f := strings.Fields(head)
	if len(f) >= 4 && f[0] == "err" {
		m.line, m.col, m.kind = f[1], f[2], f[3]
		if strings.HasPrefix(m.kind, "fault") || m.kind == "hang" {
			m.fault = true
		}
	}
	return m
}

// single-document result of the model: the last document delivered, nil if none
func modelSingle(body string) string {
	if body == "" {
		return "n"
	}
	if i := strings.LastIndex(body, ";"); i >= 0 {
		return body[i+1:]
	}
	return body
}

// tie compares a model answer with an implementation outcome; "" = they agree.
func tie(m modelAns, o Outcome, r runSpec) string {
	if o.Panic != "" {
		if m.fault {
			return ""
		}
		return "implementation panicked, model says " + m.raw
	}
	if m.fault {
		if r.tok && !o.OK && o.Kind == "fault" {
			return "" // the tokenizer recovers a run-time fault into an error
		}
		return "model predicts a run-time fault, implementation says " + o.String()
	}
	if m.ok != o.OK {
		return "acceptance differs: model " + m.raw + " implementation " + o.String()
	}
	if m.ok {
		want := m.body
		if !r.tok && !r.multi {
			want = modelSingle(m.body)
		}
		if want != o.Tree {
			return "values differ: model " + want + " implementation " + o.Tree
		}
		return ""
	}
	if m.kind != o.Kind {
		return "error kind differs: model " + m.raw + " implementation " + o.String() + " (" + o.Msg + ")"
	}
	if fmt.Sprint(o.Line) != m.line {
		return "error line differs: model " + m.raw + " implementation " + o.String()
	}
	// the column of an end-of-input error depends on a stale loop variable of the fast paths: not modelled
	// (the model marks the errors it raises at the end of the input with z)
	if m.kind != "notclosed" && m.kind != "incomplete" && m.kind != "bom" && !strings.Contains(m.feat, "z") && fmt.Sprint(o.Col) != m.col {
		return "error column differs: model " + m.raw + " implementation " + o.String()
	}
	return ""
}
