package main

import (
	"fmt"
	"hash/fnv"
	"os"
	"sort"
	"strings"
	"sync/atomic"

	"verif/harness/lib"
)

// bomCompositions: every way to deliver the first 1..5 bytes in reads of 1..3 bytes (the rest comes in
// one piece): the reads a reader entry point may have to top up before it can see a byte order mark.
var bomCompositions = func() [][]int {
	var out [][]int
	var rec func(cur []int, sum int)
	rec = func(cur []int, sum int) {
		if sum > 0 {
			out = append(out, append([]int{}, cur...))
		}
		for p := 1; p <= 3; p++ {
			if sum+p <= 5 {
				rec(append(cur, p), sum+p)
			}
		}
	}
	rec(nil, 0)
	return out
}()

// startsLikeBom: inputs whose first byte is 0xEF get the BOM chunkings, single and multi-document
func startsLikeBom(in []byte) bool { return len(in) > 0 && in[0] == 0xEF }

// chunkings to try for an input (nil = whole input through bytes.Reader)
func chunkingsFor(in []byte, idx int, tok bool) [][]int {
	res := chunkingsBase(in, idx, tok)
	if startsLikeBom(in) {
		for _, c := range bomCompositions {
			sum := 0
			for _, p := range c {
				sum += p
			}
			if sum-c[len(c)-1] < len(in) { // the last read of the composition still gets a byte
				res = append(res, c)
				// EMPTY reads (0, nil) in front of, between and after the reads of the composition, single and repeated:
				// an empty read decides nothing about the byte order mark (c109a1a; before, an empty FIRST read switched
				// the BOM handling of ParseReader / Load off)
				res = append(res, append([]int{0}, c...), append([]int{0, 0}, c...))
				if len(c) >= 2 {
					mid := append(append(append([]int{}, c[:1]...), 0), c[1:]...)
					res = append(res, mid, append([]int{0}, mid...))
				}
				res = append(res, append(append([]int{}, c...), 0, 0))
			}
		}
	}
	// empty reads for every input: first, repeated, between the first bytes
	if len(in) > 0 && (len(in) <= 600 || idx%8 == 0) {
		res = append(res, []int{0}, []int{0, 0, 1, 0, 1, 0})
	}
	return res
}

func chunkingsBase(in []byte, idx int, tok bool) [][]int {
	n := len(in)
	res := [][]int{nil}
	if n == 0 {
		return res
	}
	if tok {
		// every error of sen.Tokenizer costs a debug.Stack() under a process-wide lock: fewer chunkings
		res = nil
		if n <= 600 || idx%8 == 0 {
			ones := make([]int, n)
			for i := range ones {
				ones[i] = 1
			}
			res = append(res, ones)
		}
		if n >= 2 && idx%2 == 0 {
			res = append(res, []int{1 + (idx+n)%(n-1)})
		}
		if idx%4 == 0 || len(res) == 0 {
			res = append(res, nil)
		}
		if n > 4096 {
			res = append(res, []int{4095, 1}, []int{4096}, []int{4094, 3})
		}
		return res
	}
	if n <= 600 || idx%8 == 0 {
		ones := make([]int, n)
		for i := range ones {
			ones[i] = 1
		}
		res = append(res, ones)
	}
	if n <= 7 {
		for s := 1; s < n; s++ {
			res = append(res, []int{s})
		}
	} else {
		h := uint64(idx)*0x9E3779B97F4A7C15 + uint64(n)
		for k := 0; k < 3; k++ {
			h = h*6364136223846793005 + 1442695040888963407
			s := 1 + int((h>>33)%uint64(n-1))
			res = append(res, []int{s})
		}
		h = h*6364136223846793005 + 1442695040888963407
		a := 1 + int((h>>33)%7)
		res = append(res, []int{a, a + 1, a + 2, a, 1, 2, 3, 4, 5, 6, 7})
		if n > 4096 {
			res = append(res, []int{4095, 1}, []int{4096}, []int{4094, 3}, []int{2000, 2000, 95, 2})
		}
	}
	return res
}

type ran struct {
	spec  runSpec
	reads []int
	o     Outcome
	mkey  string
}

var inputCounter int64

func runAll(w int, in []byte, idx int) []ran {
	var runs []ran
	funcs := strings.Contains(string(in), "(")
	do := func(spec runSpec) {
		var reads []int
		watchBegin(w, in, spec.name()+" "+spec.mode()+" "+chunkStr(spec.chunks))
		o := runImpl(in, spec, &reads)
		watchEnd(w)
		runs = append(runs, ran{spec, reads, o, spec.modelKey(reads, "")})
	}
	for _, tok := range []bool{false, true} {
		fn := funcs && !tok && idx%2 == 0
		for _, multi := range []bool{false, true} {
			do(runSpec{tok: tok, multi: multi, funcs: fn})
		}
		for ci, ch := range chunkingsFor(in, idx, tok) {
			do(runSpec{tok: tok, reader: true, multi: true, funcs: fn, chunks: ch})
			if (ci <= 1 && (!tok || idx%4 == 0)) || startsLikeBom(in) {
				do(runSpec{tok: tok, reader: true, multi: false, funcs: fn, chunks: ch})
			}
		}
	}
	return runs
}

func processBatch(d *lib.Driver, w int, batch [][]byte) error {
	type item struct {
		in   []byte
		idx  int
		runs []ran
		reqs map[string]int
	}
	items := make([]item, len(batch))
	var reqs []string
	for i, in := range batch {
		idx := int(atomic.AddInt64(&inputCounter, 1))
		it := item{in: in, idx: idx, runs: runAll(w, in, idx), reqs: map[string]int{}}
		hx := lib.HexF(in)
		for _, r := range it.runs {
			if _, ok := it.reqs[r.mkey]; !ok {
				it.reqs[r.mkey] = len(reqs)
				reqs = append(reqs, r.mkey+"\t"+hx)
			}
		}
		items[i] = it
	}
	ans, err := d.Ask(reqs)
	if err != nil {
		return err
	}
	for _, it := range items {
		model := map[string]modelAns{}
		for k, i := range it.reqs {
			if ans[i] == "bad-op" {
				return fmt.Errorf("driver answered bad-op to %q", reqs[i])
			}
			model[k] = parseModel(ans[i])
		}
		if err := judge(d, it.in, it.idx, it.runs, model); err != nil {
			return err
		}
	}
	return nil
}

// agree: the C03 comparison — an equal value tree, or an error in every case
func agree(a, b Outcome, values func(Outcome) string) bool {
	if a.OK != b.OK {
		return false
	}
	return !a.OK || values(a) == values(b)
}

func modelAgree(a, b modelAns, tok, multi bool) bool {
	if a.fault || b.fault {
		return false
	}
	if a.ok != b.ok {
		return false
	}
	if !a.ok {
		return true
	}
	if !tok && !multi {
		return modelSingle(a.body) == modelSingle(b.body)
	}
	return a.body == b.body
}

// repairSets: the fast-path deviations switched off, smallest sets first (driver option letters)
var repairSets = []string{"K", "M", "I", "KM", "KI", "MI", "KMI"}

// whole, partial and broken byte order marks
var bomPrefixes = [][]byte{{0xEF, 0xBB, 0xBF}, {0xEF}, {0xEF, 0xBB}, {0xEF, 0xBB, 0x00}, {0xEF, 0x00}, {0xEF, 0xBF, 0xBB}, {0xEF, 0xBB, 0xBF, 0xEF, 0xBB, 0xBF}}

var repairID = map[byte]string{'K': "C03sen-token-end-chunk", 'M': "C03sen-newline-skip-chunk", 'I': "C03sen-int19"}

// explainByRepair asks the repaired machine (a deviation set switched off) about the two runs; if it
// gives the same outcome for both, the violation is exactly the listed deviation(s).
func explainByRepair(d *lib.Driver, in []byte, a, b ran, sameFrontEnd bool) (string, string, error) {
	hx := lib.HexF(in)
	for _, set := range repairSets {
		ka, kb := a.spec.modelKey(a.reads, set), b.spec.modelKey(b.reads, set)
		ans, err := d.Ask([]string{ka + "\t" + hx, kb + "\t" + hx})
		if err != nil {
			return "", "", err
		}
		ma, mb := parseModel(ans[0]), parseModel(ans[1])
		ok := false
		if sameFrontEnd {
			ok = modelAgree(ma, mb, a.spec.tok, a.spec.multi)
		} else if !ma.fault && !mb.fault && ma.ok == mb.ok {
			// a = parser, b = tokenizer: the documents against the callbacks rebuilt into documents
			ok = !ma.ok
			if ma.ok {
				built, good := rebuildEvents(mb.body)
				want := ma.body
				if !a.spec.multi {
					want = modelSingle(ma.body)
					if built == "" {
						built = "n"
					}
				}
				ok = good && built == want
			}
		}
		if ok {
			return repairID[set[0]], set, nil
		}
	}
	return "", "", nil
}

// rebuildEvents turns the callback list of a (model) tokenizer run into documents, the way the
// harness' alt.Builder handler does for the implementation: canonical trees, ';' separated.
func rebuildEvents(evs string) (string, bool) {
	type frame struct {
		obj  bool
		keys []string
		vals []string
		key  string
		has  bool
	}
	var stack []*frame
	var docs []string
	put := func(v string) bool {
		if len(stack) == 0 {
			docs = append(docs, v)
			return true
		}
		f := stack[len(stack)-1]
		if f.obj {
			if !f.has {
				return false
			}
			f.has = false
			for i, k := range f.keys {
				if k == f.key {
					f.vals[i] = v
					return true
				}
			}
			f.keys = append(f.keys, f.key)
			f.vals = append(f.vals, v)
			return true
		}
		f.vals = append(f.vals, v)
		return true
	}
	if evs == "" {
		return "", true
	}
	for _, e := range strings.Split(evs, ",") {
		switch {
		case e == "{":
			stack = append(stack, &frame{obj: true})
		case e == "[":
			stack = append(stack, &frame{})
		case e == "}" || e == "]":
			if len(stack) == 0 {
				return "", false
			}
			f := stack[len(stack)-1]
			stack = stack[:len(stack)-1]
			var v string
			if f.obj {
				idx := make([]int, len(f.keys))
				for i := range idx {
					idx[i] = i
				}
				sort.Slice(idx, func(a, b int) bool {
					x, _ := lib.UnhexF(f.keys[idx[a]])
					y, _ := lib.UnhexF(f.keys[idx[b]])
					return string(x) < string(y)
				})
				parts := make([]string, len(idx))
				for i, j := range idx {
					parts[i] = "K(" + f.keys[j] + ")" + f.vals[j]
				}
				v = "{" + strings.Join(parts, ",") + "}"
			} else {
				v = "[" + strings.Join(f.vals, ",") + "]"
			}
			if !put(v) {
				return "", false
			}
		case strings.HasPrefix(e, "K("):
			if len(stack) == 0 || !stack[len(stack)-1].obj {
				return "", false
			}
			stack[len(stack)-1].key = e[2 : len(e)-1]
			stack[len(stack)-1].has = true
		default:
			if !put(e) {
				return "", false
			}
		}
	}
	return strings.Join(docs, ";"), len(stack) == 0
}

// front-end deviations of sen.Tokenizer / sen.Parser, by the letter the model reports when a run goes
// through them (priority order)
var featID = []struct {
	c  byte
	id string
}{
	{'q', "C03sen-tokenizer-quote"},
	{'c', "C03sen-tokenizer-ccomment"},
	{'p', "C03sen-tokenizer-plus"},
	{'f', "C03sen-tokenizer-func"},
	{'e', "C03sen-tokenizer-comment-onlyone"},
	{'s', "C03sen-parser-undelivered"},
	{'v', "C03sen-missing-value"},
}

func describe(r ran) map[string]any {
	return map[string]any{"entry": r.spec.name(), "mode": r.spec.mode(), "funcs": r.spec.funcs, "chunks": r.spec.chunks,
		"reads": chunkStr(r.reads), "impl": r.o.String()}
}

func judge(d *lib.Driver, in []byte, idx int, runs []ran, model map[string]modelAns) error {
	nontrivial := int64(0)
	if len(in) >= 2 {
		nontrivial = 1
	}
	rep.AddEval(1, nontrivial)
	rep.Count("runs", int64(len(runs)))
	if idx%9973 == 1 {
		rep.Sample(map[string]any{"input": fmt.Sprintf("%q", string(trunc(in))), "impl_first": runs[0].o.String(), "model_first": model[runs[0].mkey].raw})
	}
	c03, c06 := *prop == "C03sen", *prop == "C06sen"
	// base runs: whole-buffer Parse of each front-end and mode
	base := map[string]*ran{}
	for i := range runs {
		r := &runs[i]
		m := model[r.mkey]
		desc := describe(*r)
		desc["model"] = m.raw
		rep.Count("impl."+strings.Fields(r.o.String())[0], 1)
		// the tie
		if why := tie(m, r.o, r.spec); why != "" {
			add("disagreement", "model:"+r.spec.name(), why, in, desc)
		}
		// C06: no panic, no run-time fault reported as an error
		if c06 {
			if r.o.Panic != "" {
				if m.fault && strings.Contains(m.feat, "p") &&
					(strings.Contains(m.kind, "not_a_string") || strings.Contains(m.kind, "index_out_of_range_[0]")) {
					addKnown("C06sen-plus-panic", "panic:"+r.spec.name()+":plus", "the parser panics when '+' does not follow a string: "+r.o.Panic, in, desc)
				} else {
					add("violation", "panic:"+r.spec.name(), "front-end panicked: "+r.o.Panic, in, desc)
				}
			} else if !r.o.OK && r.o.Kind == "fault" {
				add("violation", "fault-as-error:"+r.spec.name(), "a run-time fault surfaced as the error result: "+r.o.Msg, in, desc)
			}
		}
		if !r.spec.reader {
			k := r.spec.mode()
			if r.spec.tok {
				k += "T"
			}
			base[k] = r
		}
	}
	if !c03 {
		return nil
	}
	treeOf := func(o Outcome) string { return o.Tree }
	for i := range runs {
		r := &runs[i]
		if r.o.Panic != "" || !r.spec.reader {
			continue
		}
		k := r.spec.mode()
		if r.spec.tok {
			k += "T"
		}
		b := base[k]
		if b == nil || b.o.Panic != "" || agree(b.o, r.o, treeOf) {
			continue
		}
		desc := describe(*r)
		desc["other_entry"] = b.spec.name()
		desc["other_impl"] = b.o.String()
		cls := "chunking:" + r.spec.name()
		if b.o.Kind == "bom" && tie(model[r.mkey], r.o, r.spec) == "" && tie(model[b.mkey], b.o, b.spec) == "" {
			addKnown("C03sen-bom-bytes", cls+":C03sen-bom-bytes", "0xEF that is not a byte order mark: 'expected BOM' from a []byte, a token from a reader", in, desc)
			continue
		}
		id, set, err := explainByRepair(d, in, *b, *r, true)
		if err != nil {
			return err
		}
		if id != "" && tie(model[r.mkey], r.o, r.spec) == "" && tie(model[b.mkey], b.o, b.spec) == "" {
			desc["repaired_without"] = set
			addKnown(id, cls+":"+id, "the outcome depends on how the reader splits the input (fast path "+set+")", in, desc)
		} else {
			add("violation", cls, "the outcome depends on how the reader splits the input", in, desc)
		}
	}
	// tokenizer (rebuilt with alt.Builder) against parser, whole buffer
	for _, md := range []string{"single", "multi"} {
		p, t := base[md], base[md+"T"]
		if p == nil || t == nil || p.o.Panic != "" || t.o.Panic != "" {
			continue
		}
		same := p.o.OK == t.o.OK
		if same && p.o.OK {
			pt := p.o.Tree
			if md == "single" {
				// Parse returns the one document; the rebuilt tokenizer stream must consist of it
				if t.o.Built == "" {
					same = pt == "n"
				} else {
					same = pt == t.o.Built
				}
			} else {
				same = pt == t.o.Built
			}
		}
		if same {
			continue
		}
		desc := describe(*t)
		desc["built"] = t.o.Built
		desc["other_entry"] = p.spec.name()
		desc["other_impl"] = p.o.String()
		mp, mt := model[p.mkey], model[t.mkey]
		desc["model_parser"] = mp.raw
		desc["model_tokenizer"] = mt.raw
		// per case: the Lean machine carries the named defects (the tokenizer's missing cases, the parser's
		// undelivered values, the pinned fast paths); a difference is explained only if BOTH outcomes are exactly
		// what the machine predicts for this input — the parser's documents or error, the tokenizer's callbacks or
		// error, and the documents rebuilt from the predicted callbacks (when they form a well-formed stream)
		tied := tie(mp, p.o, p.spec) == "" && tie(mt, t.o, t.spec) == ""
		if tied && mt.ok && t.o.OK {
			if built, good := rebuildEvents(mt.body); good {
				desc["predicted_built"] = built
				if built != t.o.Built {
					tied = false
					desc["prediction_failed"] = "the documents alt.Builder builds from the callbacks are not the ones the predicted callbacks give"
				}
			}
		}
		cls := "frontends:" + md
		done := false
		if tied {
			feats := mp.feat + mt.feat
			for _, f := range featID {
				if strings.IndexByte(feats, f.c) >= 0 {
					addKnown(f.id, cls+":"+f.id, "sen.Tokenizer and sen.Parser differ", in, desc)
					done = true
					break
				}
			}
			if !done && strings.ContainsAny(feats, "ikm") {
				id, set, err := explainByRepair(d, in, *p, *t, false)
				if err != nil {
					return err
				}
				if id != "" {
					desc["repaired_without"] = set
					addKnown(id, cls+":"+id, "sen.Tokenizer and sen.Parser differ (fast path "+set+")", in, desc)
					done = true
				}
			}
		}
		if !done {
			add("violation", cls, "sen.Tokenizer (rebuilt with alt.Builder) and sen.Parser disagree on the outcome", in, desc)
		}
	}
	return nil
}

func runStreams() {
	if *replay != "" {
		r := readReplay()
		hx, _ := r["input_hex"].(string)
		in, err := lib.UnhexF(hx)
		if err != nil {
			fmt.Fprintln(os.Stderr, "bad replay input:", err)
			os.Exit(3)
		}
		runPool(func(emit func(job)) {
			emit(func(d *lib.Driver, w int) error { return processBatch(d, w, [][]byte{in}) })
		})
		rep.Rule = "replay of one input"
		return
	}
	full := *tier == "thorough"
	runPool(func(emitJob func(job)) {
		var cur [][]byte
		curBytes := 0
		seen := map[uint64]struct{}{}
		flush := func() {
			if len(cur) > 0 {
				b := cur
				emitJob(func(d *lib.Driver, w int) error { return processBatch(d, w, b) })
				cur, curBytes = nil, 0
			}
		}
		emit := func(in []byte) {
			h := fnv.New64a()
			h.Write(in)
			k := h.Sum64()
			if _, dup := seen[k]; dup {
				rep.Count("stream.duplicates_skipped", 1)
				return
			}
			seen[k] = struct{}{}
			cur = append(cur, append([]byte{}, in...))
			curBytes += len(in)
			if len(cur) >= 128 || curBytes >= 16384 {
				flush()
			}
		}
		if *corpus != "" {
			if data, err := os.ReadFile(*corpus); err == nil {
				for _, line := range strings.Split(string(data), "\n") {
					line = strings.TrimSpace(line)
					if line == "" || strings.HasPrefix(line, "#") {
						continue
					}
					if b, err := lib.UnhexF(strings.Fields(line)[0]); err == nil {
						emit(b)
						rep.Count("stream.corpus", 1)
					}
				}
			}
		}
		tinyLen, smallLen, wideLen := 4, 3, 2
		if full {
			tinyLen, smallLen, wideLen = 5, 4, 3
		}
		if on("tiny") {
			enumStrings(alphaTiny, tinyLen, func(b []byte) { emit(b); rep.Count("stream.exhaustive_tiny", 1) })
			rep.Exhaustive = append(rep.Exhaustive, fmt.Sprintf("all strings of length <= %d over %q", tinyLen, alphaTiny))
		}
		if on("small") {
			enumStrings(alphaSmall, smallLen, func(b []byte) { emit(b); rep.Count("stream.exhaustive_small", 1) })
			rep.Exhaustive = append(rep.Exhaustive, fmt.Sprintf("all strings of length <= %d over %q", smallLen, alphaSmall))
		}
		if on("wide") {
			enumStrings(alphaWide, wideLen, func(b []byte) { emit(b); rep.Count("stream.exhaustive_wide", 1) })
			rep.Exhaustive = append(rep.Exhaustive, fmt.Sprintf("all strings of length <= %d over %q", wideLen, alphaWide))
		}
		if on("trans") {
			transitionCases(full, func(b []byte) { emit(b); rep.Count("stream.transition", 1) })
			rep.Exhaustive = append(rep.Exhaustive, fmt.Sprintf("contexts x %d mode prefixes x 256 bytes x suffixes", len(modePrefixes)))
		}
		if on("bom") {
			// byte order marks: whole, partial and broken ones in front of the corpus, of every short
			// string over the tiny alphabet and of a few documents; inputs that start with 0xEF are run
			// under every composition of the first 1..5 bytes into reads of 1..3 bytes (chunkingsFor)
			var bases [][]byte
			if *corpus != "" {
				if data, err := os.ReadFile(*corpus); err == nil {
					for _, line := range strings.Split(string(data), "\n") {
						line = strings.TrimSpace(line)
						if line == "" || strings.HasPrefix(line, "#") {
							continue
						}
						if b, err := lib.UnhexF(strings.Fields(line)[0]); err == nil {
							bases = append(bases, b)
						}
					}
				}
			}
			for _, d := range []string{"", "{\"a\":[1,true,\"x\"]}", "1", "[]", "a", "\"s\"", " 1", "\n[1]", "1 2", "{a:1}", "[1 2]\n[3]", "// c\n1", "12", "123", "1234"} {
				bases = append(bases, []byte(d))
			}
			enumLen := 2
			if full {
				enumLen = 3
			}
			enumStrings(alphaTiny, enumLen, func(b []byte) { bases = append(bases, append([]byte{}, b...)) })
			for pi, pre := range bomPrefixes {
				for _, b := range bases {
					if pi >= 3 && len(b) > 2 && !full {
						continue
					}
					emit(append(append([]byte{}, pre...), b...))
					rep.Count("stream.bom_prefixed", 1)
				}
			}
			rep.Exhaustive = append(rep.Exhaustive, fmt.Sprintf("%d whole/partial/broken BOM prefixes x (corpus, all strings of length <= %d over %q, %d documents), each under all %d compositions of the first 1..5 bytes into reads of 1..3 bytes, ParseReader and Tokenizer.Load, single and multi", len(bomPrefixes), enumLen, alphaTiny, 15, len(bomCompositions)))
		}
		g := &senGen{r: lib.NewRng(*seed)}
		nDocs := 7000
		if full {
			nDocs = 60000
		}
		if !on("rand") {
			nDocs = 0
		}
		for i := 0; i < nDocs; i++ {
			dd := g.doc()
			emit(dd)
			rep.Count("stream.random_valid", 1)
			for k := 0; k < 2; k++ {
				emit(g.mutate(dd))
				rep.Count("stream.random_mutated", 1)
			}
			if i%6 == 0 {
				emit(append(append(append([]byte{}, dd...), lib.Pick(g.r, []string{" ", "\n", "", ",", " // c\n"})...), g.doc()...))
				rep.Count("stream.random_multi", 1)
			}
		}
		nBig := 10
		if full {
			nBig = 60
		}
		if on("big") {
			bigFamily(g, nBig, func(b []byte) { emit(b); rep.Count("stream.straddle4096", 1) })
		}
		flush()
	})
	rep.Rule = "inputs: corpus, exhaustive strings over class-representative alphabets of sen/maps.go, every (context, mode prefix, byte, suffix), seeded random SEN documents (tokens, both quote delimiters, comments, '+', optional commas, token functions, number shapes) with byte mutations and multi-document inputs, tokens straddling offset 4096, whole/partial/broken byte order marks in front of the corpus, of short strings and of documents (every input that starts with 0xEF additionally under every composition of its first 1..5 bytes into reads of 1..3 bytes, single and multi, and with EMPTY reads (0, nil) in front of, between and after those reads, single and repeated; every input also with an empty first read and with empty reads between its first bytes); each input through sen.Parser.Parse/ParseReader and sen.Tokenizer.Parse/Load x {single, multi} x chunkings (whole, 1-byte, every split of short inputs, pseudo-random splits, 4096-straddling), every call on a fresh instance under recover and a watchdog; duplicates dropped before running (64-bit hash); distinct_nontrivial counts the distinct inputs of length >= 2"
}
