#!/usr/bin/env python3
"""Refresh the expected source text in lean/OjgVerif/Props/C10Facts.lean.

Props/C10Facts.lean compares Gen/SenWriterFacts.lean (printed from the CURRENT sen/writer.go, sen/tight.go by
tools/extract/sen.go) with the text the writer models (Sen/Writer.lean, Sen/WriterIndent.lean, Sen/WriterStream.lean)
were written against. After an INTENDED change of those Go functions: (1) re-read the models against the new
text and adapt them, (2) run this script to take over the new text as the expected one:

    /verif/.build/extract -repo /repo -out /verif/lean/OjgVerif/Gen
    python3 /verif/harness/cmd/sen/regen_c10facts.py

It rewrites only the list literals of the `theorem …_src` statements (doc comments are kept).
"""
import re, sys
GEN = '/verif/lean/OjgVerif/Gen/SenWriterFacts.lean'
FACTS = '/verif/lean/OjgVerif/Props/C10Facts.lean'
defs = dict(re.findall(r'def (\w+) : List String := (\[.*\])\n', open(GEN).read()))

def fmt(lst):
    items = re.findall(r'"(?:[^"\\]|\\.)*"', lst)
    out, line = '[', '\n    '
    for i, it in enumerate(items):
        piece = it + (', ' if i < len(items) - 1 else '')
        if len(line) + len(piece) > 118:
            out += line.rstrip(); line = '\n    '
        line += piece
    return out + line.rstrip() + ']'

s = open(FACTS).read()
n = 0
for name, lst in defs.items():
    pat = re.compile(r'(: Gen\.SenWriterFacts\.' + name + r' =\n    )\[.*?\]( := by\n  decide \+kernel)', re.S)
    s, k = pat.subn(lambda m: m.group(1) + fmt(lst) + m.group(2), s)
    n += k
open(FACTS, 'w').write(s)
print('rewrote', n, 'statements')
