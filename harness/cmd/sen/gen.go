package main

import (
	"math"
	"strconv"
	"strings"

	"verif/harness/lib"
)

// One representative per byte class of the SEN tables, plus every byte a fast path tests.
var alphaTiny = []byte("[]{}:\"a1 \n+,")
var alphaSmall = []byte("[]{}():,\"'a1-+./* \n")
var alphaWide = []byte("[]{}():,\"'\\/*+-.019eEtrunfalsx$ \n\t\r#&`|\x00\x7f\x80\xef")

// enumStrings calls f with every string over alpha of length 0..maxLen.
func enumStrings(alpha []byte, maxLen int, f func([]byte)) {
	buf := make([]byte, 0, maxLen)
	var rec func(depth int)
	rec = func(depth int) {
		f(buf)
		if depth == maxLen {
			return
		}
		for _, c := range alpha {
			buf = append(buf, c)
			rec(depth + 1)
			buf = buf[:len(buf)-1]
		}
	}
	rec(0)
}

// prefixes reaching every mode of sen/maps.go (the comment names the mode after the prefix)
var modePrefixes = []string{
	"",                      // value
	"a", "ab", "nul", "tru", // token
	"{a", "{\"a\"", "{'a'", // token in key position / colon
	"{a ", "{a\n", // colon
	"{a:", "{a:1 ", // value in object
	"-",       // neg
	"0", "-0", // zero
	"1", "12", "-3", "922337203685477580", // digit
	"12345678901234567890.", // dot (big)
	"1.", "1.5", "0.25",     // frac
	"1e", "1.5E", // expSign
	"1e+", "1e-", // expZero
	"1e5", "1.5e-07", // exp
	"\"", "\"a", "'a", "'", "\"\\n", // string
	"\"\\", "'\\", // esc
	"\"\\u", "\"\\u0", "\"\\u00", "\"\\u004", // u
	"\"a\" +", "[\"a\" +", "{a:\"x\" +", "[1 +", "+", // plus
	"1 ", "[] ", "{} ", "null ", "\"a\" ", // space (single) / value (multi)
	"/", "1/", "a/", "[1 /", // commentStart
	"//", "// c", "[1//c", // comment
	"/*", "/* c", "[a/*", // ccomment
	"/**", "/* c *", // ccommentEnd
	"a(", "cnt(1 ", "lst(a", "[foo(", // token function
	"\n", " \n", "[1\n", "{a\n", "[a\n", // after a newline (skip loop)
}

// contexts the prefix is placed in, with the closer that would complete them
var contexts = [][2]string{
	{"", ""},
	{"[", "]"},
	{"{k:", "}"},
	{"[{k:[", "]}]"},
	{"{", "}"},
}

var suffixesQuick = []string{"", " 1"}

var suffixesFull = []string{"", " 1", "\"", "a", "]", ":1}", ")", "\n,:1}"}

func transitionCases(full bool, f func([]byte)) {
	ctxs, sufs := contexts[:2], suffixesQuick
	if full {
		ctxs, sufs = contexts[:3], suffixesFull
	}
	for _, ctx := range ctxs {
		for _, pre := range modePrefixes {
			for b := 0; b < 256; b++ {
				for _, suf := range sufs {
					s := ctx[0] + pre + string([]byte{byte(b)}) + suf + ctx[1]
					f([]byte(s))
				}
			}
		}
	}
}

// ---- structured random SEN documents ----

type senGen struct {
	r *lib.Rng
}

var wsChoices = []string{"", "", " ", " ", " ", " ", "\n", "\n", ",", ", ", "\t", "\r\n", "  ", " \n  ", "\n,", " // c\n", "//\n", "", " ", " ", "\n  ", " ", ""}
var ccChoices = []string{" /* c */ ", "/**/", "/* a\n b */", "/* * / */"}
var sepChoices = []string{" ", " ", " ", " ", "\n", ",", ", ", "\t", "\n  ", " , ", " // c\n", " ", "\n"}
var tokenChoices = []string{"a", "abc", "x1", "true", "false", "null", "$ref", "@t", "a-b", "a+b", "a.b", "<x>", "~", "A_Z", "tru", "nulls", "é", "日本", "\x80\xff", "a*", "?q", ".5x", "^", "t", "n", "e5", "E", "cnt", "lst", "nul", "foo", "x-1", "x+"}

func (g *senGen) ws() string {
	if g.r.Intn(40) == 0 {
		return lib.Pick(g.r, ccChoices)
	}
	return lib.Pick(g.r, wsChoices)
}
func (g *senGen) sep() string {
	if g.r.Intn(40) == 0 {
		return lib.Pick(g.r, ccChoices)
	}
	return lib.Pick(g.r, sepChoices)
}

func (g *senGen) digits(n int, first19 bool) string {
	var sb strings.Builder
	for i := 0; i < n; i++ {
		d := g.r.Intn(10)
		if i == 0 && first19 && d == 0 {
			d = 1 + g.r.Intn(9)
		}
		sb.WriteByte(byte('0' + d))
	}
	return sb.String()
}

func (g *senGen) number() string {
	var sb strings.Builder
	if g.r.Intn(4) == 0 {
		sb.WriteByte('-')
	}
	switch g.r.Intn(12) {
	case 0:
		sb.WriteString("0")
	case 1:
		sb.WriteString(lib.Pick(g.r, []string{"9223372036854775807", "9223372036854775808", "9223372036854775800", "9223372036854775799", "922337203685477580", "9223372036854775806", "18446744073709551616", "1000000000000000000"}))
	case 2:
		sb.WriteString(g.digits(17+g.r.Intn(8), true))
	default:
		sb.WriteString(g.digits(1+g.r.Intn(6), true))
	}
	switch g.r.Intn(6) {
	case 0:
		sb.WriteString("." + g.digits(1+g.r.Intn(4), false))
	case 1:
		sb.WriteString("." + g.digits(15+g.r.Intn(8), false))
	case 2:
		if g.r.Intn(8) == 0 {
			sb.WriteString(".")
		}
	}
	if g.r.Intn(5) == 0 {
		sb.WriteString(lib.Pick(g.r, []string{"e", "E"}) + lib.Pick(g.r, []string{"", "+", "-"}) + g.digits(1+g.r.Intn(3), false))
	}
	return sb.String()
}

func (g *senGen) qstr() string {
	q := lib.Pick(g.r, []string{"\"", "\"", "'"})
	other := "'"
	if q == "'" {
		other = "\""
	}
	var sb strings.Builder
	sb.WriteString(q)
	n := g.r.Intn(6)
	for i := 0; i < n; i++ {
		switch g.r.Intn(14) {
		case 0:
			sb.WriteString(other)
		case 1:
			sb.WriteString("\\" + lib.Pick(g.r, []string{"n", "t", "\"", "'", "\\", "/", "b", "f", "r"}))
		case 2:
			sb.WriteString(lib.Pick(g.r, []string{"\\u0041", "\\u00e9", "\\u20AC", "\\ud83d\\ude00", "\\uDC00", "\\u0000"}))
		case 3:
			sb.WriteString(lib.Pick(g.r, []string{"\n", "\t", "\r"}))
		case 4:
			sb.WriteString(lib.Pick(g.r, []string{"é", "日", "\x80", "\xf0\x9f\x98\x80"}))
		case 5:
			sb.WriteString(lib.Pick(g.r, []string{"//", "/*", "*/", "+", ":", ",", "[", "}", "(", " "}))
		default:
			sb.WriteByte(byte('a' + g.r.Intn(26)))
		}
	}
	sb.WriteString(q)
	if g.r.Intn(12) == 0 {
		sb.WriteString(lib.Pick(g.r, []string{" + ", "+", " +\n", "\n+ "}) + g.qstr())
	}
	return sb.String()
}

func (g *senGen) scalar() string {
	switch g.r.Intn(10) {
	case 0, 1, 2:
		return lib.Pick(g.r, tokenChoices)
	case 3, 4, 5:
		return g.qstr()
	default:
		return g.number()
	}
}

func (g *senGen) value(depth int) string {
	if depth <= 0 || g.r.Intn(3) == 0 {
		return g.scalar()
	}
	switch g.r.Intn(9) {
	case 0, 1, 2, 3:
		n := g.r.Intn(4)
		var sb strings.Builder
		sb.WriteString("[" + g.ws())
		for i := 0; i < n; i++ {
			if i > 0 {
				// a container needs no separator before or after it
				if g.r.Intn(5) == 0 {
					sb.WriteString(g.ws())
				} else {
					sb.WriteString(g.sep())
				}
			}
			sb.WriteString(g.value(depth - 1))
		}
		sb.WriteString(g.ws() + "]")
		return sb.String()
	case 4, 5, 6, 7:
		n := g.r.Intn(4)
		var sb strings.Builder
		sb.WriteString("{" + g.ws())
		for i := 0; i < n; i++ {
			if i > 0 {
				sb.WriteString(g.sep())
			}
			if g.r.Intn(3) == 0 {
				sb.WriteString(g.qstr())
			} else {
				sb.WriteString(lib.Pick(g.r, tokenChoices))
			}
			sb.WriteString(lib.Pick(g.r, []string{"", "", " ", "\n"}) + ":" + lib.Pick(g.r, []string{"", "", " ", "\n "}))
			sb.WriteString(g.value(depth - 1))
		}
		sb.WriteString(g.ws() + "}")
		return sb.String()
	default:
		n := g.r.Intn(3)
		var sb strings.Builder
		sb.WriteString(lib.Pick(g.r, []string{"cnt", "lst", "nul", "foo", "ISODate"}) + "(")
		for i := 0; i < n; i++ {
			if i > 0 {
				sb.WriteString(g.sep())
			}
			sb.WriteString(g.value(depth - 1))
		}
		sb.WriteString(")")
		return sb.String()
	}
}

func (g *senGen) doc() []byte {
	return []byte(g.ws() + g.value(1+g.r.Intn(4)) + g.ws())
}

var mutBytes = []byte("[]{}():,\"'\\/*+-.01e \n#&\x00\x80")

func (g *senGen) mutate(d []byte) []byte {
	out := append([]byte{}, d...)
	n := 1 + g.r.Intn(2)
	for k := 0; k < n; k++ {
		if len(out) == 0 {
			out = append(out, lib.Pick(g.r, mutBytes))
			continue
		}
		i := g.r.Intn(len(out))
		switch g.r.Intn(6) {
		case 0: // delete
			out = append(out[:i], out[i+1:]...)
		case 1: // insert
			out = append(out[:i], append([]byte{lib.Pick(g.r, mutBytes)}, out[i:]...)...)
		case 2: // replace
			out[i] = lib.Pick(g.r, mutBytes)
		case 3: // truncate
			out = out[:i]
		case 4: // duplicate a slice
			j := i + g.r.Intn(len(out)-i)
			out = append(out[:j], append(append([]byte{}, out[i:j]...), out[j:]...)...)
		default: // random byte
			out[i] = byte(g.r.Intn(256))
		}
	}
	return out
}

// bigFamily: documents padded so that each token class straddles offsets 4095..4097.
func bigFamily(g *senGen, n int, f func([]byte)) {
	pieces := []string{
		"abcdefghij", "\"abcdefghij\"", "'abc\"defghi'", "\"ab\\ncd\\u0041ef\"", "1234567890", "-12345.67890e+12", "9223372036854775807",
		"true", "null", "\n     ,  x", "// comment\n", "/* c c c */", "\"a\" + \"bcd\"", "cnt(1 2 3)", "{aaaa:1}", "{a\n ,  :1}", "{abcdefg,:1}", "[abcdefg:1]",
		"12345678901234567890.12345e-5", "0.000000000000000000012345",
	}
	for k := 0; k < n; k++ {
		p := pieces[k%len(pieces)]
		for shift := 0; shift <= len(p) && shift < 12; shift += 1 + k%3 {
			padLen := 4096 - 1 - shift
			if padLen < 0 {
				continue
			}
			pad := strings.Repeat(" ", padLen)
			if k%4 == 1 {
				pad = strings.Repeat("x ", padLen/2) + strings.Repeat(" ", padLen%2)
			}
			f([]byte("[" + pad + p + " " + g.value(1) + "]"))
		}
	}
}

// ---- value trees for C10 ----

var strPool = []string{
	"", "a", "abc", "hello world", "true", "false", "null", "True", "nul", "nulls", "truex", "TRUE",
	"0", "1", "-1", "+1", "1.5", "1e5", "-0", ".5", "1.", "0x1f", "-", "+", "--", "-x", "+a", "a-b", "a+b", "1a", "a1",
	"Infinity", "NaN", "-Inf", "+Inf", "&", "a&b", "`", "a`b", "|", "a|b", "<", ">", "<a>", "a<b",
	"a b", " a", "a ", "a,b", "a:b", "{", "}", "[", "]", "(", ")", "a(b)", "a(1", "\"", "'", "a\"b", "a'b", "\\", "a\\b",
	"//", "/*", "*/", "a//b", "a/*b*/", "/", "a/b", "#", "=", "a=b", ";", "!", "%", "$", "@", "*", "?", "^", "_", "~", ".",
	"\n", "a\nb", "\t", "a\tb", "\r", "\x00", "\x01", "\x1f", "\x7f", "é", "日本語", "\u2028", "a\u2029b", "\ufffd", "😀",
	"\x80", "a\xffb", "\xc3", "\xe2\x82", "\xed\xa0\x80", "\xf0\x9f", "\xc0\xaf",
	"this string is longer than sixty-four bytes, which is the maximum token length!",
	"aaaaaaaaaaaaaaaaaaaaaaaaaaaaaaaaaaaaaaaaaaaaaaaaaaaaaaaaaaaaaaaa",  // 64
	"aaaaaaaaaaaaaaaaaaaaaaaaaaaaaaaaaaaaaaaaaaaaaaaaaaaaaaaaaaaaaaaaa", // 65
	"2021-06-28T10:11:12Z", "ISODate", "cnt", "e", "E5", "x+", "x-",
	"\ufb01le", "\ufeffabc", "\ufffdabc", "\uffe5", // first byte 0xEF: the BOM rule of Parse at top level
}

type treeGen struct {
	r *lib.Rng
}

func (g *treeGen) str() string {
	switch g.r.Intn(10) {
	case 0, 1, 2, 3, 4:
		return lib.Pick(g.r, strPool)
	case 5:
		// random bytes, mostly from the interesting set
		n := 1 + g.r.Intn(4)
		b := make([]byte, n)
		for i := range b {
			if g.r.Intn(3) == 0 {
				b[i] = byte(g.r.Intn(256))
			} else {
				b[i] = lib.Pick(g.r, alphaWide)
			}
		}
		return string(b)
	case 6:
		return lib.Pick(g.r, strPool) + lib.Pick(g.r, strPool)
	default:
		n := 1 + g.r.Intn(8)
		b := make([]byte, n)
		for i := range b {
			b[i] = byte('a' + g.r.Intn(26))
		}
		return string(b)
	}
}

var intPool = []int64{0, 1, -1, 9, 10, 42, -42, 255, 65536, 1 << 31, -(1 << 31), 1<<53 + 1, 922337203685477580, 922337203685477579,
	9223372036854775799, 9223372036854775800, 9223372036854775807, -9223372036854775807, -9223372036854775808, 1000000000000000000, 999999999999999999}

var floatPool = []float64{0, 1, -1, 0.5, 1.5, -2.25, 0.1, 1e6, 1e21, 1e-7, 1.5e-7, 123456789.125, 1e100, 1e-100, 1.7976931348623157e308,
	5e-324, 2.2250738585072014e-308, 9007199254740993, 1e22, 1e23, 0.30000000000000004, 3.141592653589793, 123456789012345680000, 1e15, 1e16, -1e-5,
	0.000001, 0.0000001, 100000, 1e20, 9223372036854775807, 9223372036854775808,
	// F-form with 19 and more fraction digits (the accumulator of gen.Number goes over to its text form), the ends of the F-form range
	0.00012345678901234567, 0.0001, 0.00009999, 123456.7, 999999.9999999999, 1234567.8, 0.012345678901234567, 1.2345678901234567}

func (g *treeGen) num() any {
	switch g.r.Intn(6) {
	case 0, 1:
		return lib.Pick(g.r, intPool)
	case 2:
		return int64(g.r.Next())
	case 3:
		return lib.Pick(g.r, floatPool)
	case 4:
		f := math.Float64frombits(g.r.Next())
		if math.IsNaN(f) || math.IsInf(f, 0) {
			return 1.25
		}
		return f
	default:
		return float64(int64(g.r.Intn(2000000)-1000000)) / float64(lib.Pick(g.r, []int{1, 2, 4, 8, 10, 100, 1000, 3}))
	}
}

func (g *treeGen) tree(depth int) any {
	if depth <= 0 || g.r.Intn(3) == 0 {
		switch g.r.Intn(9) {
		case 8:
			return "" // what OmitEmpty drops (and OmitNil must not)
		case 0:
			return nil
		case 1:
			return g.r.Bool()
		case 2, 3:
			return g.num()
		default:
			return g.str()
		}
	}
	if g.r.Bool() {
		n := g.r.Intn(4)
		a := make([]any, n)
		for i := range a {
			a[i] = g.tree(depth - 1)
		}
		return a
	}
	n := g.r.Intn(4)
	m := make(map[string]any, n)
	for i := 0; i < n; i++ {
		m[g.str()] = g.tree(depth - 1)
	}
	return m
}

// deep nests a leaf under `depth` arrays/objects (to pass the indentation clamp of the writers).
func deep(depth int, leaf any, obj bool) any {
	v := leaf
	for i := 0; i < depth; i++ {
		if obj && i%2 == 1 {
			v = map[string]any{"k": v}
		} else {
			v = []any{v}
		}
	}
	return v
}

func fmtFloat(f float64) string { return strconv.FormatFloat(f, 'g', -1, 64) }
