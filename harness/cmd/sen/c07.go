package main

import (
	"fmt"
	"os"
	"reflect"
	"sort"
	"strings"

	"github.com/ohler55/ojg/sen"

	"verif/harness/lib"
)

// one call of a history
type hcall struct {
	in     []byte
	reader bool
	chunks []int
	cb     int // 0 none, 1 func(any), 2 func(any) bool
	reuse  bool
}

func (c hcall) spec(funcs bool) runSpec {
	return runSpec{reader: c.reader, multi: c.cb != 0, funcs: funcs, chunks: c.chunks}
}

type hres struct {
	o      Outcome
	vals   []any  // values handed out (result or callback arguments)
	shown  string // their rendering at return time
	reads  []int
	reused bool
}

// callOn runs one call on p; the input buffer is a private copy that is overwritten afterwards (a
// returned value that aliases it changes its rendering).
func callOn(p *sen.Parser, c hcall) (r hres) {
	buf := append([]byte{}, c.in...)
	p.Reuse = c.reuse
	r.reused = c.reuse
	r.o = guard(func() Outcome {
		var args []any
		var docs []string
		switch c.cb {
		case 1:
			args = append(args, func(x any) { r.vals = append(r.vals, x); docs = append(docs, render(x)) })
		case 2:
			args = append(args, func(x any) bool { r.vals = append(r.vals, x); docs = append(docs, render(x)); return false })
		}
		var v any
		var err error
		if c.reader {
			v, err = p.ParseReader(rd(buf, c.chunks, &r.reads), args...)
		} else {
			v, err = p.Parse(buf, args...)
		}
		if err != nil {
			return fromErr(err)
		}
		if c.cb != 0 {
			return Outcome{OK: true, Tree: strings.Join(docs, ";")}
		}
		r.vals = append(r.vals, v)
		return Outcome{OK: true, Tree: render(v)}
	})
	for i := range buf {
		buf[i] = 'X'
	}
	r.shown = renderAll(r.vals)
	return
}

func renderAll(vs []any) string {
	parts := make([]string, len(vs))
	for i, v := range vs {
		parts[i] = render(v)
	}
	return strings.Join(parts, ";")
}

func sameOutcome(a, b Outcome) bool {
	if a.Panic != "" || b.Panic != "" {
		return a.Panic != "" && b.Panic != ""
	}
	if a.OK != b.OK {
		return false
	}
	if a.OK {
		return a.Tree == b.Tree
	}
	return a.Line == b.Line && a.Col == b.Col && a.Msg == b.Msg
}

var plusPending = []string{"[\"a\" +", "+", "{a:\"x\" +", "[1 2 +", "\"a\" +", "[x +\n", "{a:b +", "[\"a\" + ]", "{a:\"x\" + }", "[+ x]"}
var plusProbes = []string{"[x \"a\"]", "\"abc\"", "{\"a\":1}", "[\"a\" \"b\"]", "[1 \"a\"]", "{a:\"b\"}", "'q'", "[[] \"a\"]", "{a:{b:\"c\"}}", "[x 'y' z]"}

type histGen struct {
	g *senGen
}

func (h *histGen) call() hcall {
	r := h.g.r
	var in []byte
	switch r.Intn(12) {
	case 0, 1, 2, 3:
		in = h.g.doc()
	case 4, 5:
		in = h.g.mutate(h.g.doc())
	case 6:
		d := h.g.doc()
		in = d[:r.Intn(len(d)+1)]
	case 7, 8:
		in = []byte(lib.Pick(r, plusPending))
	case 9, 10:
		in = []byte(lib.Pick(r, plusProbes))
	default:
		in = append(append(h.g.doc(), ' '), h.g.doc()...)
	}
	c := hcall{in: in, cb: lib.Pick(r, []int{0, 0, 0, 1, 2}), reuse: r.Intn(3) == 0}
	if r.Intn(3) == 0 {
		c.reader = true
		switch r.Intn(3) {
		case 0:
			c.chunks = nil
		case 1:
			c.chunks = make([]int, len(in))
			for i := range c.chunks {
				c.chunks[i] = 1
			}
		default:
			if len(in) > 1 {
				c.chunks = []int{1 + r.Intn(len(in)-1)}
			}
		}
	}
	return c
}

func describeCall(c hcall) string {
	e := "Parse"
	if c.reader {
		e = "ParseReader" + fmt.Sprint(c.chunks)
	}
	return fmt.Sprintf("%s(%q cb=%d reuse=%v)", e, string(trunc(c.in)), c.cb, c.reuse)
}

func historyJob(hists [][]hcall, funcs []bool) job {
	return func(d *lib.Driver, w int) error {
		for hi, h := range hists {
			if err := runHistory(d, h, funcs[hi]); err != nil {
				return err
			}
		}
		return nil
	}
}

func historyKey(kind string, n int, at func(int) ([]byte, string)) [][]byte {
	parts := [][]byte{[]byte(kind)}
	for i := 0; i < n; i++ {
		in, how := at(i)
		parts = append(parts, in, []byte(how))
	}
	return parts
}

func runHistory(d *lib.Driver, h []hcall, funcs bool) error {
	rep.AddEval(1, distinctCase(historyKey(fmt.Sprint("parser", funcs), len(h), func(i int) ([]byte, string) {
		return h[i].in, fmt.Sprint(h[i].reader, h[i].chunks, h[i].cb, h[i].reuse)
	})...))
	rep.Count("calls", int64(len(h)))
	p := &sen.Parser{}
	if funcs {
		addFuncs(p)
	}
	var past []hres
	var descr []string
	type step struct {
		c     hcall
		r, f  hres
		reads []int
	}
	var steps []step
	abandoned := false
	for _, c := range h {
		descr = append(descr, describeCall(c))
		r := callOn(p, c)
		fp := &sen.Parser{}
		if funcs {
			addFuncs(fp)
		}
		f := callOn(fp, c)
		steps = append(steps, step{c, r, f, r.reads})
		// values handed out earlier must not change (unless that call asked for Reuse, or this one
		// recycles the maps of an earlier Reuse call)
		for pi, pr := range past {
			if pr.reused {
				continue
			}
			if now := renderAll(pr.vals); now != pr.shown {
				add("violation", "history:returned-value-changed", "a value returned by an earlier call changed during a later call", c.in,
					map[string]any{"history": descr, "earlier_call": pi, "was": pr.shown, "now": now})
			}
		}
		past = append(past, r)
		if r.o.Panic != "" {
			abandoned = true // the state a panic leaves behind is not modelled: the history ends here
			break
		}
	}
	_ = abandoned
	// the model, call by call, with the `plus` flag and `lastStrKey` it says the previous call left behind
	plus, lsk, lk := false, "-", "-"
	for i, s := range steps {
		sp := s.c.spec(funcs)
		hx := lib.HexF(s.c.in)
		carried := ""
		if plus {
			carried = "+"
		}
		reqs := []string{sp.modelKey(s.reads, carried) + "\t" + hx + "\t" + lsk + "\t" + lk, sp.modelKey(s.f.reads, "") + "\t" + hx}
		ans, err := d.Ask(reqs)
		if err != nil {
			return err
		}
		if ans[0] == "bad-op" || ans[1] == "bad-op" {
			return fmt.Errorf("driver answered bad-op to %q", reqs)
		}
		m, mf := parseModel(ans[0]), parseModel(ans[1])
		ex := map[string]any{"history": descr[:i+1], "call": i, "funcs": funcs, "reused_instance": s.r.o.String(), "fresh_instance": s.f.o.String(),
			"model_reused": m.raw, "model_fresh": mf.raw, "plus_left_by_previous_call": plus, "lastStrKey_left_by_previous_call": lsk, "lastKey_left_by_previous_call": lk}
		tr, tf := tie(m, s.r.o, sp), tie(mf, s.f.o, sp)
		if tr != "" {
			add("disagreement", "model:history", "reused instance: "+tr, s.c.in, ex)
		}
		if tf != "" {
			add("disagreement", "model:fresh", "fresh instance: "+tf, s.c.in, ex)
		}
		if !sameOutcome(s.r.o, s.f.o) {
			cls := "history:call-differs-from-fresh"
			if plus && tr == "" && tf == "" {
				addKnown("C07sen-plus-not-reset", cls+":C07sen-plus-not-reset", "the previous call left the pending '+' set: "+s.r.o.String()+" instead of "+s.f.o.String(), s.c.in, ex)
			} else {
				add("violation", cls, "a call on a reused sen.Parser differs from the same call on a fresh one: "+s.r.o.String()+" instead of "+s.f.o.String(), s.c.in, ex)
			}
		}
		if s.r.o.Panic != "" {
			break
		}
		plus, lsk, lk = m.plus, m.lsk, m.lk
	}
	return nil
}

// pooled: the package-level functions recycle instances through a sync.Pool. Which instance a call
// gets is not observable (the pool keeps several, per scheduler thread). The harness therefore keeps the
// SET of (plus, lastStrKey, lastKey) states that pooled instances can be in according to the Lean
// machine: it starts with the fresh state; after every call, every state of the set from which the
// machine reproduces the observed outcome contributes the state the machine says the call leaves. A
// deviation from a fresh parser is the known finding iff the machine reproduces it from a state of the
// set that has plus set; if no state of the set explains the outcome it is a violation.
type pstate struct {
	plus    bool
	lsk, lk string
}

func (p pstate) key() string { return fmt.Sprint(p.plus, "|", p.lsk, "|", p.lk) }

func pooledPhase(g *senGen, n int) {
	hg := &histGen{g}
	d, err := lib.StartDriver(*driver)
	if err != nil {
		fmt.Fprintln(os.Stderr, err)
		os.Exit(3)
	}
	defer d.Close()
	states := []pstate{{false, "-", "-"}} // most recently produced first, bounded
	archive := map[string]pstate{states[0].key(): states[0]}
	var descr []string
	ask := func(sts []pstate, sp runSpec, reads []int, hx string) []modelAns {
		reqs := make([]string, len(sts))
		for k, st := range sts {
			carried := ""
			if st.plus {
				carried = "+"
			}
			reqs[k] = sp.modelKey(reads, carried) + "\t" + hx + "\t" + st.lsk + "\t" + st.lk
		}
		ans, err := d.Ask(reqs)
		if err != nil {
			fmt.Fprintln(os.Stderr, err)
			os.Exit(3)
		}
		out := make([]modelAns, len(ans))
		for k := range ans {
			out[k] = parseModel(ans[k])
		}
		return out
	}
	afterOf := func(m modelAns) pstate {
		after := pstate{m.plus, m.lsk, m.lk}
		if m.fault && strings.Contains(m.kind, "index_out_of_range_[0]") {
			after.plus = false // addString cleared the flag before the empty stack was delivered
		}
		if !after.plus {
			after.lsk = "-" // dead: the next '+' overwrites it before it is read
		}
		return after
	}
	for i := 0; i < n; i++ {
		c := hg.call()
		c.reuse = false
		c.cb = 0
		buf := append([]byte{}, c.in...)
		var reads []int
		got := guard(func() Outcome {
			var v any
			var err error
			if c.reader {
				v, err = sen.ParseReader(rd(buf, c.chunks, &reads))
			} else {
				v, err = sen.Parse(buf)
			}
			if err != nil {
				return fromErr(err)
			}
			return Outcome{OK: true, Tree: render(v)}
		})
		f := callOn(&sen.Parser{}, c)
		descr = append(descr, describeCall(c))
		if len(descr) > 6 {
			descr = descr[len(descr)-6:]
		}
		rep.Count("pooled_calls", 1)
		sp := c.spec(false)
		hx := lib.HexF(c.in)
		explainedByPlus, explained := false, false
		var how string
		seen := map[string]bool{}
		var fresh, old []pstate
		consider := func(sts []pstate) {
			ms := ask(sts, sp, reads, hx)
			for k, st := range sts {
				m := ms[k]
				if tie(m, got, sp) != "" {
					if !seen[st.key()] {
						seen[st.key()] = true
						old = append(old, st) // another instance may still be in this state
					}
					continue
				}
				explained = true
				if st.plus && !explainedByPlus {
					explainedByPlus = true
					how = m.raw
				}
				after := afterOf(m)
				archive[after.key()] = after
				if !seen[after.key()] {
					seen[after.key()] = true
					fresh = append(fresh, after)
				}
				if !seen[st.key()] {
					seen[st.key()] = true
					old = append(old, st)
				}
			}
		}
		consider(states)
		if !explained {
			// an instance that has not been handed out for a long time: every state ever produced
			var all []pstate
			for _, st := range archive {
				if !seen[st.key()] {
					all = append(all, st)
				}
			}
			sort.Slice(all, func(a, b int) bool { return all[a].key() < all[b].key() })
			rep.Count("pooled.archive_lookups", 1)
			consider(all)
		}
		states = append(fresh, old...)
		if len(states) > 96 {
			states = states[:96]
		}
		if sameOutcome(got, f.o) && explained {
			continue
		}
		ex := map[string]any{"last_calls": append([]string{}, descr...), "pooled": got.String(), "fresh_instance": f.o.String(), "states_tracked": len(archive)}
		switch {
		case !sameOutcome(got, f.o) && explainedByPlus:
			ex["model_from_a_plus_state"] = how
			addKnown("C07sen-plus-not-reset", "history:pooled:C07sen-plus-not-reset", "sen.Parse on a pooled instance that an earlier failed call left with '+' pending: "+got.String()+" instead of "+f.o.String(), c.in, ex)
		case !sameOutcome(got, f.o):
			add("violation", "history:pooled", "sen.Parse/ParseReader through the pool differs from a fresh parser: "+got.String()+" instead of "+f.o.String(), c.in, ex)
		default:
			add("disagreement", "model:pooled", "no instance state the model has ever produced explains the pooled call (it equals the fresh parser)", c.in, ex)
		}
	}
}

// ---- sen.Tokenizer histories ----

// inputs that stop while a member name is expected, and inputs that show it
var exkeyPending = []string{"{", "{a:1", "{a:1 ", "[{", "{a:{", "{a:[1]", "{a:1,", "{a:1\n", "{a:b ", "{\"a\":1 ", "[1 {", "{a:1 b:2", "{ // c\n", "{a:1 ]"}
var exkeyProbes = []string{"\"a\"", "a", "[a b]", "1", "[1]", "{a:1}", "'q' 1", "a b", "null", "[{a:1}]", "-3", "\"a\" \"b\"", "}"}

type tcall struct {
	in     []byte
	reader bool
	chunks []int
	multi  bool
}

func (c tcall) spec() runSpec {
	return runSpec{tok: true, reader: c.reader, multi: c.multi, chunks: c.chunks}
}

func (h *histGen) tcall() tcall {
	r := h.g.r
	var in []byte
	switch r.Intn(12) {
	case 0, 1, 2:
		in = h.g.doc()
	case 3, 4:
		in = h.g.mutate(h.g.doc())
	case 5, 6:
		d := h.g.doc()
		in = d[:r.Intn(len(d)+1)]
	case 7, 8:
		in = []byte(lib.Pick(r, exkeyPending))
	case 9, 10:
		in = []byte(lib.Pick(r, exkeyProbes))
	default:
		in = append(append(h.g.doc(), ' '), h.g.doc()...)
	}
	c := tcall{in: in, multi: r.Intn(3) == 0}
	if r.Intn(3) == 0 {
		c.reader = true
		switch r.Intn(3) {
		case 0:
			c.chunks = nil
		case 1:
			c.chunks = make([]int, len(in))
			for i := range c.chunks {
				c.chunks[i] = 1
			}
		default:
			if len(in) > 1 {
				c.chunks = []int{1 + r.Intn(len(in)-1)}
			}
		}
	}
	return c
}

func describeTCall(c tcall) string {
	e := "Parse"
	if c.reader {
		e = "Load" + fmt.Sprint(c.chunks)
	}
	return fmt.Sprintf("Tokenizer.%s(%q OnlyOne=%v)", e, string(trunc(c.in)), !c.multi)
}

// tokOn runs one call on t; the outcome carries the callbacks made (also those before an error).
func tokOn(t *sen.Tokenizer, c tcall, reads *[]int) Outcome {
	buf := append([]byte{}, c.in...)
	o := guard(func() Outcome {
		t.OnlyOne = !c.multi
		h := &evHandler{}
		var err error
		if c.reader {
			err = t.Load(rd(buf, c.chunks, reads), h)
		} else {
			err = t.Parse(buf, h)
		}
		if err != nil {
			o := fromErr(err)
			o.Tree = strings.Join(h.evs, ",")
			return o
		}
		return Outcome{OK: true, Tree: strings.Join(h.evs, ",")}
	})
	for i := range buf {
		buf[i] = 'X'
	}
	return o
}

func sameTokOutcome(a, b Outcome) bool {
	return sameOutcome(a, b) && a.Tree == b.Tree
}

// exkeyOf reads the unexported field the tokenizer keeps between calls (reading a bool through
// reflection is allowed for unexported fields).
func exkeyOf(t *sen.Tokenizer) bool {
	f := reflect.ValueOf(t).Elem().FieldByName("exkey")
	if !f.IsValid() || f.Kind() != reflect.Bool {
		fmt.Fprintln(os.Stderr, "sen.Tokenizer has no bool field exkey any more: the harness must be adapted")
		os.Exit(3)
	}
	return f.Bool()
}

func tokHistoryJob(hists [][]tcall) job {
	return func(d *lib.Driver, w int) error {
		for _, h := range hists {
			if err := runTokHistory(d, h); err != nil {
				return err
			}
		}
		return nil
	}
}

// runTokHistory: calls on ONE sen.Tokenizer, each compared with a fresh tokenizer (callbacks and error)
// and with the Lean machine started with the `exkey` the instance really holds at entry.
func runTokHistory(d *lib.Driver, h []tcall) error {
	rep.AddEval(1, distinctCase(historyKey("tokenizer", len(h), func(i int) ([]byte, string) {
		return h[i].in, fmt.Sprint(h[i].reader, h[i].chunks, h[i].multi)
	})...))
	rep.Count("tokenizer_calls", int64(len(h)))
	t := &sen.Tokenizer{}
	var descr []string
	for i, c := range h {
		descr = append(descr, describeTCall(c))
		stale := exkeyOf(t)
		var reads, freads []int
		r := tokOn(t, c, &reads)
		f := tokOn(&sen.Tokenizer{}, c, &freads)
		sp := c.spec()
		hx := lib.HexF(c.in)
		carried := ""
		if stale {
			carried = "x"
		}
		reqs := []string{sp.modelKey(reads, carried) + "\t" + hx, sp.modelKey(freads, "") + "\t" + hx}
		ans, err := d.Ask(reqs)
		if err != nil {
			return err
		}
		if ans[0] == "bad-op" || ans[1] == "bad-op" {
			return fmt.Errorf("driver answered bad-op to %q", reqs)
		}
		m, mf := parseModel(ans[0]), parseModel(ans[1])
		ex := map[string]any{"history": descr[:i+1], "call": i, "reused_instance": r.String(), "reused_callbacks": r.Tree, "fresh_instance": f.String(),
			"fresh_callbacks": f.Tree, "model_reused": m.raw, "model_fresh": mf.raw, "exkey_at_entry": stale}
		tr, tf := tie(m, r, sp), tie(mf, f, sp)
		if tr != "" {
			add("disagreement", "model:tokenizer-history", "reused tokenizer: "+tr, c.in, ex)
		}
		if tf != "" {
			add("disagreement", "model:tokenizer-fresh", "fresh tokenizer: "+tf, c.in, ex)
		}
		if !sameTokOutcome(r, f) {
			cls := "history:tokenizer-differs-from-fresh"
			what := r.String() + " [" + r.Tree + "] instead of " + f.String() + " [" + f.Tree + "]"
			if stale && tr == "" && tf == "" {
				addKnown("C07sen-tokenizer-exkey-not-reset", cls+":C07sen-tokenizer-exkey-not-reset", "an earlier failed call left the tokenizer expecting a member name: "+what, c.in, ex)
			} else {
				add("violation", cls, "a call on a reused sen.Tokenizer differs from the same call on a fresh one: "+what, c.in, ex)
			}
		}
		if r.Panic != "" {
			break
		}
	}
	return nil
}

func runC07() {
	full := *tier == "thorough"
	g := &senGen{r: lib.NewRng(*seed)}
	nPooled, nHist := 4000, 12000
	if full {
		nPooled, nHist = 60000, 250000
	}
	if *replay != "" {
		fmt.Fprintln(os.Stderr, "C07sen findings are histories: re-run the check with the same VERIF_SEED (the report lists the calls)")
		nPooled, nHist = 0, 0
	}
	if on("pooled") {
		pooledPhase(g, nPooled)
	}
	runPool(func(emit func(job)) {
		hg := &histGen{&senGen{r: lib.NewRng(*seed + 7777)}}
		var hs [][]hcall
		var fs []bool
		if !on("hist") {
			nHist = 0
		}
		for i := 0; i < nHist; i++ {
			n := 2 + hg.g.r.Intn(5)
			h := make([]hcall, n)
			for k := range h {
				h[k] = hg.call()
			}
			hs = append(hs, h)
			fs = append(fs, hg.g.r.Intn(3) == 0)
			if len(hs) >= 16 {
				emit(historyJob(hs, fs))
				hs, fs = nil, nil
			}
		}
		if len(hs) > 0 {
			emit(historyJob(hs, fs))
		}
		// the same for ONE sen.Tokenizer
		tg := &histGen{&senGen{r: lib.NewRng(*seed + 8888)}}
		nTok := nHist / 2
		if !on("tokhist") {
			nTok = 0
		}
		var ts [][]tcall
		for i := 0; i < nTok; i++ {
			n := 2 + tg.g.r.Intn(5)
			th := make([]tcall, n)
			for k := range th {
				th[k] = tg.tcall()
			}
			ts = append(ts, th)
			if len(ts) >= 16 {
				emit(tokHistoryJob(ts))
				ts = nil
			}
		}
		if len(ts) > 0 {
			emit(tokHistoryJob(ts))
		}
	})
	rep.Rule = "seeded random call histories (2..6 calls: valid, mutated, truncated, '+'-pending and '+'-revealing inputs; Parse / ParseReader with chunkings; no callback, func(any), func(any) bool; Reuse on/off per call; token functions registered or not) on ONE sen.Parser, each call compared (tree or error text and position) with the same call on a fresh parser; values returned earlier are rendered at return time and re-compared after every later call (calls with Reuse excepted); the input buffer is overwritten after each call; the same through the pooled sen.Parse/sen.ParseReader from one goroutine; the Lean machine is asked about every call with the plus flag it says the previous call left; the same kind of histories (Parse / Load with chunkings, OnlyOne on/off, inputs that stop while a member name is expected) on ONE sen.Tokenizer, callbacks and error compared with a fresh tokenizer, the Lean tokenizer machine asked about every call with the exkey flag the instance really holds at entry (read by reflection); distinct_nontrivial counts the distinct histories (inputs, entry points, chunkings, options of all calls) by a 64-bit hash folded into a bit set (a lower bound); the pooled phase is one long history and is not counted there"
}
