package main

import (
	"bytes"
	"encoding/json"
	"fmt"
	"math"
	"math/big"
	"os"
	"sort"
	"strconv"
	"strings"
	"sync"
	"unicode/utf8"

	"github.com/ohler55/ojg"
	"github.com/ohler55/ojg/pretty"
	"github.com/ohler55/ojg/sen"

	"verif/harness/lib"
)

// sanitize: what a reader gets back for a string with invalid UTF-8 in it (every byte that does not
// start a well-formed sequence becomes U+FFFD on its own; same function as Writer.sanitize in Lean).
func sanitize(s string) string {
	if utf8.ValidString(s) {
		return s
	}
	var sb strings.Builder
	for i := 0; i < len(s); {
		r, n := utf8.DecodeRuneInString(s[i:])
		if r == utf8.RuneError && n == 1 {
			sb.WriteString("\uFFFD")
		} else {
			sb.WriteString(s[i : i+n])
		}
		i += n
	}
	return sb.String()
}

func isReserved(s string) bool { return s == "true" || s == "false" || s == "null" }

func writtenBare(s string, html bool) bool {
	out := ojg.AppendSENString(nil, s, html)
	return len(out) > 0 && out[0] != '"'
}

// the three excluded input classes (known findings), as predicates on one string
func leadingSign(s string, html bool) bool {
	return len(s) > 0 && (s[0] == '+' || s[0] == '-') && writtenBare(s, html)
}
func nonTokenByte(s string, html bool) bool {
	return strings.ContainsAny(s, "&`|") && writtenBare(s, html)
}
func reservedBare(s string, html bool) bool { return isReserved(s) && writtenBare(s, html) }

// a document of four or more bytes that starts with 0xEF is either stripped of a BOM or rejected
// ("expected BOM") by sen.Parse; a bare string U+F000..U+FFFF… at top level is such a document
func topLevelEF(s string, html bool) bool {
	return len(s) >= 4 && s[0] == 0xEF && writtenBare(s, html)
}

func parseFresh(in []byte) Outcome {
	return guard(func() Outcome {
		var p sen.Parser
		return parseOn(&p, in, runSpec{}, nil)
	})
}

type strCtx struct {
	name     string
	pre, suf string
	wrap     func(string) string // expected canonical tree for the string value S(hex)
}

var strCtxs = []strCtx{
	{"value", "[", "]", func(s string) string { return "[" + s + "]" }},
	{"key", "{", ":1}", func(s string) string { return "{K(" + s[2:len(s)-1] + ")I(1)}" }},
	{"top", "", "", func(s string) string { return s }},
}

// oneString runs one string through AppendSENString and the parser in the given contexts.
func stringReqs(s []byte, html bool, ctxs []strCtx) (reqs []string, outs [][]byte, out []byte) {
	out = ojg.AppendSENString(nil, string(s), html)
	h := "0"
	if html {
		h = "1"
	}
	reqs = append(reqs, "senstr\t"+h+"\t"+lib.HexF(s))
	for _, c := range ctxs {
		doc := []byte(c.pre + string(out) + c.suf)
		outs = append(outs, doc)
		reqs = append(reqs, "run\tsen\tP\tsingle\t-\t-\t"+lib.HexF(doc))
	}
	return
}

func judgeString(s []byte, html bool, ctxs []strCtx, out []byte, docs [][]byte, ans []string) {
	rep.AddEval(1, distinctCase([]byte("string"), s, []byte(fmt.Sprint(html, len(ctxs)))))
	extra := map[string]any{"string_hex": lib.HexF(s), "string": fmt.Sprintf("%q", string(s)), "html_safe": html, "written": fmt.Sprintf("%q", string(out))}
	if want, _ := lib.UnhexF(ans[0]); !bytes.Equal(want, out) {
		add("disagreement", "model:AppendSENString", "model and implementation write different bytes: model "+fmt.Sprintf("%q", string(want)), s, extra)
	}
	want := "S(" + lib.HexF([]byte(sanitize(string(s)))) + ")"
	for i, c := range ctxs {
		o := parseFresh(docs[i])
		m := parseModel(ans[1+i])
		ex := map[string]any{"context": c.name, "document": fmt.Sprintf("%q", string(docs[i])), "impl": o.String(), "model": m.raw}
		for k, v := range extra {
			ex[k] = v
		}
		if why := tie(m, o, runSpec{}); why != "" {
			add("disagreement", "model:sen.Parser.Parse", why, s, ex)
		}
		if o.OK && o.Tree == c.wrap(want) {
			continue
		}
		cls := "string:" + c.name
		ss := string(s)
		switch {
		case c.name != "key" && reservedBare(ss, html) && o.OK &&
			o.Tree == c.wrap(map[string]string{"true": "t", "false": "f", "null": "n"}[ss]):
			addKnown("C10-reserved-word", cls+":C10-reserved-word", "the string "+ss+" is written bare and read back as "+o.Tree, s, ex)
		case c.name == "key" && reservedBare(ss, html):
			add("violation", cls, "a reserved word as key does not come back", s, ex)
		case c.name == "top" && topLevelEF(ss, html):
			addKnown("C10-top-level-ef", cls+":C10-top-level-ef", "a bare top-level string that begins with the byte 0xEF meets the BOM test of Parse: "+o.String(), s, ex)
		case leadingSign(ss, html):
			addKnown("C10-leading-sign", cls+":C10-leading-sign", "a string that begins with a sign is written bare and does not come back: "+o.String(), s, ex)
		case nonTokenByte(ss, html):
			addKnown("C10-bare-nontoken-byte", cls+":C10-bare-nontoken-byte", "a string with '&', '`' or '|' is written bare and does not come back: "+o.String(), s, ex)
		default:
			add("violation", cls, "the written string does not come back as the same string: "+o.String(), s, ex)
		}
	}
}

type strItem struct {
	s    []byte
	html bool
	nctx int
}

func stringJob(items []strItem) job {
	return func(d *lib.Driver, w int) error {
		var reqs []string
		type st struct {
			out  []byte
			docs [][]byte
			at   int
			n    int
		}
		sts := make([]st, len(items))
		for i, it := range items {
			r, docs, out := stringReqs(it.s, it.html, strCtxs[:it.nctx])
			sts[i] = st{out, docs, len(reqs), len(r)}
			reqs = append(reqs, r...)
		}
		ans, err := d.Ask(reqs)
		if err != nil {
			return err
		}
		for _, a := range ans {
			if a == "bad-op" {
				return fmt.Errorf("driver answered bad-op")
			}
		}
		for i, it := range items {
			judgeString(it.s, it.html, strCtxs[:it.nctx], sts[i].out, sts[i].docs, ans[sts[i].at:sts[i].at+sts[i].n])
		}
		return nil
	}
}

// ---- trees ----

type wopts struct {
	writer    string // sen.String sen.Bytes sen.Write pretty.SEN pretty.WriteSEN
	indent    int
	tab       bool
	sort      bool
	omitNil   bool
	omitEmpty bool
	html      bool // !HTMLUnsafe
	limit     int
	width     int
	maxDepth  int
	align     bool
}

func (o wopts) String() string {
	return fmt.Sprintf("%s indent=%d tab=%v sort=%v omitNil=%v omitEmpty=%v htmlSafe=%v limit=%d width=%d maxDepth=%d align=%v",
		o.writer, o.indent, o.tab, o.sort, o.omitNil, o.omitEmpty, o.html, o.limit, o.width, o.maxDepth, o.align)
}

func (o wopts) options() *ojg.Options {
	return &ojg.Options{Indent: o.indent, Tab: o.tab, Sort: o.sort, OmitNil: o.omitNil, OmitEmpty: o.omitEmpty,
		HTMLUnsafe: !o.html, WriteLimit: o.limit, InitSize: 64}
}

func writeTree(v any, o wopts) (out []byte, panicked string) {
	defer func() {
		if r := recover(); r != nil {
			panicked = strings.ReplaceAll(fmt.Sprint(r), " ", "_")
		}
	}()
	switch o.writer {
	case "sen.String":
		return []byte(sen.String(v, o.options())), ""
	case "sen.Bytes":
		return append([]byte{}, sen.Bytes(v, o.options())...), ""
	case "sen.Write":
		var b bytes.Buffer
		if err := sen.Write(&b, v, o.options()); err != nil {
			return nil, "error:" + strings.ReplaceAll(err.Error(), " ", "_")
		}
		return b.Bytes(), ""
	case "pretty.SEN":
		return []byte(pretty.SEN(v, float64(o.width)+float64(o.maxDepth)/10, o.align, o.options())), ""
	default:
		var b bytes.Buffer
		if err := pretty.WriteSEN(&b, v, float64(o.width)+float64(o.maxDepth)/10, o.align, o.options()); err != nil {
			return nil, "error:" + strings.ReplaceAll(err.Error(), " ", "_")
		}
		return b.Bytes(), ""
	}
}

// norm: the tree the text is expected to denote (members the writer is told to omit are dropped,
// invalid UTF-8 is replaced). ok=false if two keys of one object collide after the replacement.
func norm(v any, o wopts) (any, bool) {
	switch t := v.(type) {
	case string:
		return sanitize(t), true
	case []any:
		a := make([]any, len(t))
		for i, x := range t {
			n, ok := norm(x, o)
			if !ok {
				return nil, false
			}
			a[i] = n
		}
		return a, true
	case map[string]any:
		m := make(map[string]any, len(t))
		for k, x := range t {
			switch tx := x.(type) {
			case nil:
				if o.omitNil {
					continue
				}
			case string:
				if o.omitEmpty && len(tx) == 0 {
					continue
				}
			case []any:
				if o.omitEmpty && len(tx) == 0 {
					continue
				}
			case map[string]any:
				if o.omitEmpty && len(tx) == 0 {
					continue
				}
			}
			n, ok := norm(x, o)
			if !ok {
				return nil, false
			}
			sk := sanitize(k)
			if _, dup := m[sk]; dup {
				return nil, false
			}
			m[sk] = n
		}
		return m, true
	}
	return v, true
}

// hasNil: a nil anywhere in the tree
func hasNil(v any) bool {
	switch t := v.(type) {
	case nil:
		return true
	case []any:
		for _, x := range t {
			if hasNil(x) {
				return true
			}
		}
	case map[string]any:
		for _, x := range t {
			if hasNil(x) {
				return true
			}
		}
	}
	return false
}

// hasEmpty: an empty string, array or object anywhere in the tree
func hasEmpty(v any) bool {
	switch t := v.(type) {
	case string:
		return len(t) == 0
	case []any:
		if len(t) == 0 {
			return true
		}
		for _, x := range t {
			if hasEmpty(x) {
				return true
			}
		}
	case map[string]any:
		if len(t) == 0 {
			return true
		}
		for _, x := range t {
			if hasEmpty(x) {
				return true
			}
		}
	}
	return false
}

func numEqual(want, got any) bool {
	switch w := want.(type) {
	case uint64:
		switch g := got.(type) {
		case int64:
			return g >= 0 && uint64(g) == w
		case json.Number:
			bi, ok := new(big.Int).SetString(string(g), 10)
			return ok && bi.IsUint64() && bi.Uint64() == w
		}
	case int64:
		switch g := got.(type) {
		case int64:
			return w == g
		case json.Number:
			bi, ok := new(big.Int).SetString(string(g), 10)
			return ok && bi.IsInt64() && bi.Int64() == w
		}
	case float64:
		switch g := got.(type) {
		case float64:
			return w == g
		case int64:
			return w == math.Trunc(w) && math.Abs(w) < 9.3e18 && float64(g) == w && new(big.Float).SetFloat64(w).Cmp(new(big.Float).SetInt64(g)) == 0
		case json.Number:
			f, err := strconv.ParseFloat(string(g), 64)
			return err == nil && f == w
		}
	}
	return false
}

// sameTree: strings stay strings, numbers by value, keys exact.
func sameTree(want, got any) bool {
	switch w := want.(type) {
	case nil:
		return got == nil
	case bool:
		g, ok := got.(bool)
		return ok && g == w
	case int64, uint64, float64:
		return numEqual(want, got)
	case string:
		g, ok := got.(string)
		return ok && g == w
	case []any:
		g, ok := got.([]any)
		if !ok || len(g) != len(w) {
			return false
		}
		for i := range w {
			if !sameTree(w[i], g[i]) {
				return false
			}
		}
		return true
	case map[string]any:
		g, ok := got.(map[string]any)
		if !ok || len(g) != len(w) {
			return false
		}
		for k, x := range w {
			y, has := g[k]
			if !has || !sameTree(x, y) {
				return false
			}
		}
		return true
	}
	return false
}

// clean replaces the strings of the excluded classes; which classes were met is returned.
func clean(v any, html bool, key bool, met map[string]bool) any {
	fix := func(s string, isKey bool) string {
		if !isKey && reservedBare(s, html) {
			met["C10-reserved-word"] = true
			s = "_" + s
		}
		if leadingSign(s, html) {
			met["C10-leading-sign"] = true
			s = "_" + s
		}
		if nonTokenByte(s, html) {
			met["C10-bare-nontoken-byte"] = true
			s = strings.NewReplacer("&", "_", "`", "_", "|", "_").Replace(s)
		}
		return s
	}
	switch t := v.(type) {
	case string:
		return fix(t, false)
	case []any:
		a := make([]any, len(t))
		for i, x := range t {
			a[i] = clean(x, html, false, met)
		}
		return a
	case map[string]any:
		m := make(map[string]any, len(t))
		for k, x := range t {
			m[fix(k, true)] = clean(x, html, false, met)
		}
		return m
	}
	return v
}

// canonical text of an input tree for the model writer: members in sorted key order, floats as the
// text strconv produces
func canonIn(sb *strings.Builder, v any) {
	switch t := v.(type) {
	case nil:
		sb.WriteString("n")
	case bool:
		if t {
			sb.WriteString("t")
		} else {
			sb.WriteString("f")
		}
	case int64:
		fmt.Fprintf(sb, "I(%d)", t)
	case uint64:
		fmt.Fprintf(sb, "I(%d)", t)
	case float64:
		sb.WriteString("F(" + lib.HexF([]byte(fmtFloat(t))) + ")")
	case string:
		sb.WriteString("S(" + lib.HexF([]byte(t)) + ")")
	case []any:
		sb.WriteByte('[')
		for i, x := range t {
			if i > 0 {
				sb.WriteByte(',')
			}
			canonIn(sb, x)
		}
		sb.WriteByte(']')
	case map[string]any:
		keys := make([]string, 0, len(t))
		for k := range t {
			keys = append(keys, k)
		}
		sort.Strings(keys)
		sb.WriteByte('{')
		for i, k := range keys {
			if i > 0 {
				sb.WriteByte(',')
			}
			sb.WriteString("K(" + lib.HexF([]byte(k)) + ")")
			canonIn(sb, t[k])
		}
		sb.WriteByte('}')
	}
}

// canonInDesc: like canonIn with the members of every object in DESCENDING order of their names (for the model's Sort:
// the model has to sort them itself)
func canonInDesc(sb *strings.Builder, v any) {
	switch t := v.(type) {
	case []any:
		sb.WriteByte('[')
		for i, x := range t {
			if i > 0 {
				sb.WriteByte(',')
			}
			canonInDesc(sb, x)
		}
		sb.WriteByte(']')
	case map[string]any:
		keys := make([]string, 0, len(t))
		for k := range t {
			keys = append(keys, k)
		}
		sort.Sort(sort.Reverse(sort.StringSlice(keys)))
		sb.WriteByte('{')
		for i, k := range keys {
			if i > 0 {
				sb.WriteByte(',')
			}
			sb.WriteString("K(" + lib.HexF([]byte(k)) + ")")
			canonInDesc(sb, t[k])
		}
		sb.WriteByte('}')
	default:
		canonIn(sb, v)
	}
}

func maxMembers(v any) int {
	switch t := v.(type) {
	case []any:
		m := 0
		for _, x := range t {
			if k := maxMembers(x); k > m {
				m = k
			}
		}
		return m
	case map[string]any:
		m := len(t)
		for _, x := range t {
			if k := maxMembers(x); k > m {
				m = k
			}
		}
		return m
	}
	return 0
}

func roundTrips(v any, o wopts) (bool, []byte, Outcome, any) {
	out, pan := writeTree(v, o)
	if pan != "" {
		return false, out, Outcome{Panic: pan}, nil
	}
	var got any
	oc := guard(func() Outcome {
		var p sen.Parser
		x, err := p.Parse(out)
		if err != nil {
			return fromErr(err)
		}
		got = x
		return Outcome{OK: true, Tree: render(x)}
	})
	want, ok := norm(v, o)
	if !ok {
		return true, out, oc, nil // colliding keys: the comparison has no meaning
	}
	return oc.OK && sameTree(want, got), out, oc, want
}

type treeItem struct {
	v any
	o wopts
}

func treeJob(items []treeItem) job {
	return func(d *lib.Driver, w int) error {
		for _, it := range items {
			if err := judgeTree(d, it.v, it.o); err != nil {
				return err
			}
		}
		return nil
	}
}

// floatTexts: the strconv texts of the finite float leaves of the tree
func floatTexts(v any, acc map[string]bool) {
	switch t := v.(type) {
	case float64:
		if !math.IsNaN(t) && !math.IsInf(t, 0) {
			acc[fmtFloat(t)] = true
		}
	case []any:
		for _, x := range t {
			floatTexts(x, acc)
		}
	case map[string]any:
		for _, x := range t {
			floatTexts(x, acc)
		}
	}
}

var floatSeen sync.Map

// checkFloatGrammar: every text strconv writes for a finite float (format 'g', shortest) has to be a literal of the
// grammar the number theorems are about (Sen.NumAdm: hypothesis of value_flt / C10_tree_partial for float leaves)
func checkFloatGrammar(d *lib.Driver, v any) error {
	acc := map[string]bool{}
	floatTexts(v, acc)
	for t := range acc {
		if _, seen := floatSeen.LoadOrStore(t, true); seen {
			continue
		}
		ans, err := d.Ask1("numadm\t" + lib.HexF([]byte(t)))
		if err != nil {
			return err
		}
		rep.Count("tie.float_grammar", 1)
		if ans != "1" {
			add("disagreement", "model:float-grammar", "strconv wrote a float text outside the grammar of the number theorems (Sen.NumAdm)", []byte(t),
				map[string]any{"text": t, "answer": ans})
		}
	}
	return nil
}

// hasBigUint: a uint64 leaf of 2^63 or more
func hasBigUint(v any) bool {
	switch t := v.(type) {
	case uint64:
		return t >= 1<<63
	case []any:
		for _, x := range t {
			if hasBigUint(x) {
				return true
			}
		}
	case map[string]any:
		for _, x := range t {
			if hasBigUint(x) {
				return true
			}
		}
	}
	return false
}

// reduceBigUint: the same tree with every such leaf reduced by 2^63
func reduceBigUint(v any) any {
	switch t := v.(type) {
	case uint64:
		if t >= 1<<63 {
			return t - 1<<63
		}
	case []any:
		a := make([]any, len(t))
		for i, x := range t {
			a[i] = reduceBigUint(x)
		}
		return a
	case map[string]any:
		m := make(map[string]any, len(t))
		for k, x := range t {
			m[k] = reduceBigUint(x)
		}
		return m
	}
	return v
}

// chunkRecorder keeps every slice handed to Write (copied)
type chunkRecorder struct{ chunks [][]byte }

func (r *chunkRecorder) Write(p []byte) (int, error) {
	r.chunks = append(r.chunks, append([]byte{}, p...))
	return len(p), nil
}

func judgeTree(d *lib.Driver, v any, o wopts) error {
	if err := checkFloatGrammar(d, v); err != nil {
		return err
	}
	var sb strings.Builder
	canonIn(&sb, v)
	rep.AddEval(1, distinctCase([]byte("tree"), []byte(sb.String()), []byte(o.String())))
	rep.Count("writer."+o.writer, 1)
	good, out, oc, want := roundTrips(v, o)
	extra := map[string]any{"tree": sb.String(), "options": o.String(), "written": fmt.Sprintf("%q", string(trunc(out))), "parsed": oc.String()}
	if want != nil {
		extra["expected"] = render(want)
	}
	in := out
	// the tie: the model parser on the written text, the model writer on the tree
	if oc.Panic == "" || out != nil {
		reqs := []string{"run\tsen\tP\tsingle\t-\t-\t" + lib.HexF(out)}
		tight := strings.HasPrefix(o.writer, "sen.") && o.indent == 0 && !o.tab && (o.sort || maxMembers(v) <= 1)
		if tight {
			fl := ""
			if o.omitNil {
				fl += "n"
			}
			if o.omitEmpty {
				fl += "e"
			}
			if o.html {
				fl += "h"
			}
			if fl == "" {
				fl = "-"
			}
			if o.sort {
				// Sort: the model gets the members in descending order and sorts them itself (Sen.sortVal)
				var sd strings.Builder
				canonInDesc(&sd, v)
				if fl == "-" {
					fl = ""
				}
				reqs = append(reqs, "tight\t"+fl+"s\t"+sd.String())
				rep.Count("tie.sort_strings", 1)
			} else {
				reqs = append(reqs, "tight\t"+fl+"\t"+sb.String())
			}
		}
		// the indented writer (Tab or 0 < Indent): Sen.indentVal, byte for byte
		indented := strings.HasPrefix(o.writer, "sen.") && (o.indent > 0 || o.tab) && (o.sort || maxMembers(v) <= 1)
		if indented {
			fl := ""
			if o.omitNil {
				fl += "n"
			}
			if o.omitEmpty {
				fl += "e"
			}
			if o.html {
				fl += "h"
			}
			if fl == "" {
				fl = "-"
			}
			tb := "0"
			if o.tab {
				tb = "1"
			}
			ind := o.indent
			if ind < 0 {
				ind = 0
			}
			if o.sort {
				var sd strings.Builder
				canonInDesc(&sd, v)
				if fl == "-" {
					fl = ""
				}
				reqs = append(reqs, "indent\t"+fl+"s\t"+tb+"\t"+strconv.Itoa(ind)+"\t"+sd.String())
				rep.Count("tie.sort_strings", 1)
			} else {
				reqs = append(reqs, "indent\t"+fl+"\t"+tb+"\t"+strconv.Itoa(ind)+"\t"+sb.String())
			}
		}
		// pretty.SEN / pretty.WriteSEN: no model of the layout rules; the text has to be a white-space layout of the tree
		// (Sen.isLayout, hypothesis of C10_anylayout_partial)
		// … and for every sen.Writer text: where the member order is not determined (no Sort, several members) the order is
		// read off the text by the driver, like for pretty with Align.
		// (not where two member names of one object collide once their invalid bytes are replaced: `want == nil`; the
		// members cannot be told apart in the text then)
		layout := good && oc.Panic == "" && want != nil
		if layout {
			fl := ""
			if o.omitNil {
				fl += "n"
			}
			if o.omitEmpty {
				fl += "e"
			}
			if o.html {
				fl += "h"
			}
			if fl == "" {
				fl = "-"
			}
			reqs = append(reqs, "laycheck\t"+fl+"\t"+sb.String()+"\t"+lib.HexF(out))
		}
		// sen.Write: the chunks the io.Writer receives against Sen.senWriteTo (buffer, flush at the end of every appendSEN,
		// the overwrite of the last blank by the tight functions), for the WriteLimit of the case
		stream := o.writer == "sen.Write" && (tight || indented) && good
		var goChunks [][]byte
		if stream {
			fl := ""
			if o.omitNil {
				fl += "n"
			}
			if o.omitEmpty {
				fl += "e"
			}
			if o.html {
				fl += "h"
			}
			if fl == "" {
				fl = "-"
			}
			tb := "0"
			if o.tab {
				tb = "1"
			}
			ind := o.indent
			if ind < 0 {
				ind = 0
			}
			lim := o.limit
			if lim <= 0 {
				lim = 1024
			}
			var rec chunkRecorder
			if err := sen.Write(&rec, v, o.options()); err != nil {
				stream = false
			} else {
				goChunks = rec.chunks
				reqs = append(reqs, "swrite\t"+fl+"\t"+tb+"\t"+strconv.Itoa(ind)+"\t"+strconv.Itoa(lim)+"\t"+sb.String())
			}
		}
		ans, err := d.Ask(reqs)
		if err != nil {
			return err
		}
		if stream {
			sa := ans[len(ans)-1]
			ans = ans[:len(ans)-1]
			if sa == "bad-op" {
				return fmt.Errorf("driver answered bad-op to %v", reqs[len(reqs)-1])
			}
			rep.Count("tie.write_chunks", 1)
			var want []string
			for _, c := range goChunks {
				want = append(want, lib.HexF(c))
			}
			ws := strings.Join(want, ",")
			if len(want) == 0 {
				ws = "-"
			}
			if sa != ws {
				extra["model_chunks"] = sa
				extra["go_chunks"] = ws
				add("disagreement", "model:write-chunks", "model (Sen.senWriteTo) and sen.Write hand different chunks to the io.Writer", in, extra)
			}
		}
		if layout {
			la := ans[len(ans)-1]
			if la == "bad-op" {
				return fmt.Errorf("driver answered bad-op to %v", reqs[len(reqs)-1])
			}
			rep.Count("tie.layout_relation."+strings.SplitN(o.writer, ".", 2)[0], 1)
			if la == "1r" {
				// a layout of the tree with the members of some object in another order than the sorted one
				rep.Count("tie.layout_relation.reordered", 1)
			}
			if la != "1" && la != "1r" {
				add("disagreement", "model:layout-relation", "the written text round-trips but is not a white-space layout of the tree (Sen.isLayout)", in, extra)
			}
		}
		if ans[0] == "bad-op" || ((tight || indented) && ans[1] == "bad-op") {
			return fmt.Errorf("driver answered bad-op to %v", reqs)
		}
		m := parseModel(ans[0])
		extra["model"] = m.raw
		if why := tie(m, oc, runSpec{}); why != "" {
			add("disagreement", "model:sen.Parser.Parse", why, in, extra)
		}
		if tight {
			rep.Count("tie.tight_writer", 1)
			if mw, _ := lib.UnhexF(ans[1]); !bytes.Equal(mw, out) {
				extra["model_written"] = fmt.Sprintf("%q", string(trunc(mw)))
				add("disagreement", "model:tight-writer", "model and implementation write different bytes", in, extra)
			}
		}
		if indented {
			rep.Count("tie.indented_writer", 1)
			if mw, _ := lib.UnhexF(ans[1]); !bytes.Equal(mw, out) {
				extra["model_written"] = fmt.Sprintf("%q", string(trunc(mw)))
				add("disagreement", "model:indented-writer", "model (Sen.indentVal) and implementation write different bytes", in, extra)
			}
		}
	}
	if good {
		return nil
	}
	cls := "tree:" + o.writer
	if oc.Panic != "" && out == nil {
		add("violation", cls+":writer-panic", "the writer failed: "+oc.Panic, in, extra)
		return nil
	}
	met := map[string]bool{}
	cv := clean(v, o.html, false, met)
	if sv, ok := v.(string); ok && topLevelEF(sv, o.html) {
		// a bare top-level string that begins with 0xEF meets the BOM test of Parse: look at it in an array
		met["C10-top-level-ef"] = true
		cv = []any{cv}
	}
	if len(met) > 0 {
		if ok2, _, _, _ := roundTrips(cv, o); ok2 {
			ids := make([]string, 0, len(met))
			for id := range met {
				ids = append(ids, id)
			}
			sort.Strings(ids)
			extra["excluded_classes"] = ids
			addKnown(ids[0], cls+":"+ids[0], "the tree has strings of the excluded classes "+strings.Join(ids, ", ")+" and round-trips once they are replaced", in, extra)
			return nil
		}
	}
	// pretty: a uint64 leaf of 2^63 or more is written as the int64 with the same bits (pretty/build.go: buildInt(int64(td)))
	if strings.HasPrefix(o.writer, "pretty.") && hasBigUint(v) {
		if ok2, _, _, _ := roundTrips(reduceBigUint(v), o); ok2 {
			addKnown("C10-pretty-uint64-wrap", cls+":C10-pretty-uint64-wrap", "pretty writes a uint64 of 2^63 or more as a negative int64; the tree round-trips once those leaves are reduced by 2^63", in, extra)
			return nil
		}
	}
	// pretty: a container whose members would be indented past the 128 spaces the writer has
	if strings.HasPrefix(o.writer, "pretty.") && depthOf(v) >= prettyClamp {
		if ok2, _, _, _ := roundTrips(cutDepth(v, prettyClamp-1), o); ok2 {
			addKnown("C10-pretty-deep-flat", cls+":C10-pretty-deep-flat", "pretty.SEN writes the members of a container nested deeper than its indentation string without any separator", in, extra)
			return nil
		}
	}
	add("violation", cls, "sen.Parse of the written text is not the tree that was written", in, extra)
	return nil
}

// nesting depth from which pretty's fill runs out of indentation (len(spaces) = 129, Indent 1)
const prettyClamp = 128

func depthOf(v any) int {
	d := 0
	switch t := v.(type) {
	case []any:
		for _, x := range t {
			if k := depthOf(x); k > d {
				d = k
			}
		}
		return d + 1
	case map[string]any:
		for _, x := range t {
			if k := depthOf(x); k > d {
				d = k
			}
		}
		return d + 1
	}
	return 0
}

// cutDepth replaces every container below the given depth by a scalar
func cutDepth(v any, depth int) any {
	switch t := v.(type) {
	case []any:
		if depth <= 0 {
			return "cut"
		}
		a := make([]any, len(t))
		for i, x := range t {
			a[i] = cutDepth(x, depth-1)
		}
		return a
	case map[string]any:
		if depth <= 0 {
			return "cut"
		}
		m := make(map[string]any, len(t))
		for k, x := range t {
			m[k] = cutDepth(x, depth-1)
		}
		return m
	}
	return v
}

var numberLike = []string{
	"true", "false", "null", "True", "TRUE", "nul", "nulll", "truex", "xtrue", "tru", "fals", "Null", "nil", "none", "yes", "no", "undefined",
	"0", "1", "9", "-1", "+1", "1.5", "-1.5", "1e5", "1E5", "1e+5", "1e-5", "-0", ".5", "-.5", "1.", "0x1", "0x1f", "1_000", "1,2", "00", "01", "-01",
	"-", "+", "--", "++", "+-", "-x", "+a", "-a1", "+1a", "1a", "1e", "1e+", "e5", "E5", "e", "E", "Infinity", "-Infinity", "NaN", "-Inf", "+Inf", "inf",
	"0.0", "1.0e10", "12345678901234567890", "9223372036854775807", "-9223372036854775808", "1/2", "1:2", "1-2", "1+2", "2021-06-28", "10:11:12",
}

func runC10() {
	if *replay != "" {
		r := readReplay()
		runPool(func(emit func(job)) {
			if hx, ok := r["string_hex"].(string); ok {
				s, _ := lib.UnhexF(hx)
				h, _ := r["html_safe"].(bool)
				emit(stringJob([]strItem{{s, h, 3}}))
				return
			}
			fmt.Fprintln(os.Stderr, "tree replays are re-found by running the check with the same VERIF_SEED (the report names tree and options)")
		})
		rep.Rule = "replay of one string"
		return
	}
	full := *tier == "thorough"
	// class representatives, computed from the tables by the driver
	d0, err := lib.StartDriver(*driver)
	if err != nil {
		fmt.Fprintln(os.Stderr, err)
		os.Exit(3)
	}
	bc, err := d0.Ask1("byteclass")
	d0.Close()
	if err != nil || bc == "bad-op" {
		fmt.Fprintln(os.Stderr, "byteclass failed", err)
		os.Exit(3)
	}
	classOf := strings.Split(bc, ",")
	if len(classOf) != 256 {
		fmt.Fprintln(os.Stderr, "byteclass: bad answer")
		os.Exit(3)
	}
	cnt := map[string]int{}
	repSet := map[byte]bool{}
	for b := 0; b < 256; b++ {
		cnt[classOf[b]]++
		if cnt[classOf[b]] <= 1 {
			repSet[byte(b)] = true
		}
	}
	for _, b := range []byte("truenlfas+-.:/*eE019 \"'\\&`|<>\x80\xa0\xa8\xbf\xc2\xe2\xed\xef\xf0\xf4\xff\xbd") {
		repSet[b] = true
	}
	var reps []byte
	for b := 0; b < 256; b++ {
		if repSet[byte(b)] {
			reps = append(reps, byte(b))
		}
	}
	rep.Notes = append(rep.Notes, fmt.Sprintf("%d byte classes from (senMap, valueMap, tokenMap, stringMap, escMap); %d representative bytes", len(cnt), len(reps)))
	runPool(func(emit func(job)) {
		var cur []strItem
		flush := func() {
			if len(cur) > 0 {
				emit(stringJob(cur))
				cur = nil
			}
		}
		addS := func(s []byte, html bool, nctx int) {
			cur = append(cur, strItem{append([]byte{}, s...), html, nctx})
			if len(cur) >= 128 {
				flush()
			}
		}
		if *corpus != "" {
			if data, err := os.ReadFile(*corpus); err == nil {
				for _, line := range strings.Split(string(data), "\n") {
					line = strings.TrimSpace(line)
					if line == "" || strings.HasPrefix(line, "#") {
						continue
					}
					if b, err := lib.UnhexF(strings.Fields(line)[0]); err == nil {
						addS(b, false, 3)
						addS(b, true, 3)
						rep.Count("stream.corpus", 1)
					}
				}
			}
		}
		if on("strings") {
			// every string of length <= 2 over the full byte range, both HTML settings, three contexts
			addS(nil, false, 3)
			addS(nil, true, 3)
			for a := 0; a < 256; a++ {
				for _, h := range []bool{false, true} {
					addS([]byte{byte(a)}, h, 3)
				}
				for b := 0; b < 256; b++ {
					addS([]byte{byte(a), byte(b)}, false, 3)
					addS([]byte{byte(a), byte(b)}, true, 2)
				}
			}
			rep.Count("stream.strings_le2_full", 2*(1+256+65536))
			rep.Exhaustive = append(rep.Exhaustive, "AppendSENString + sen.Parse: every string of length <= 2 over all 256 byte values (so every (first byte, second byte) pair), htmlSafe on and off, in value, key and top-level position")
			if full {
				for a := 0; a < 256; a++ {
					for b := 0; b < 256; b++ {
						for c := 0; c < 256; c++ {
							addS([]byte{byte(a), byte(b), byte(c)}, false, 2)
						}
					}
				}
				rep.Count("stream.strings_3_full", 1<<24)
				rep.Exhaustive = append(rep.Exhaustive, "every string of length 3 over all 256 byte values, htmlSafe off, value and key position")
			}
			n := 0
			maxLen := 3
			if full {
				maxLen = 4
			}
			enumStrings(reps, maxLen, func(s []byte) {
				if len(s) >= 3 {
					addS(s, false, 2)
					if bytes.ContainsAny(s, "&<>") {
						addS(s, true, 2)
					}
					n++
				}
			})
			rep.Count("stream.strings_class_reps", int64(n))
			rep.Exhaustive = append(rep.Exhaustive, fmt.Sprintf("every string of length 3..%d over %d class-representative bytes (one per class of the regenerated tables, the letters of the reserved words, signs, quotes, UTF-8 lead/continuation boundaries)", maxLen, len(reps)))
		}
		if on("spellings") {
			for _, s := range numberLike {
				for _, h := range []bool{false, true} {
					addS([]byte(s), h, 3)
				}
				for _, t := range numberLike[:12] {
					addS([]byte(s+" "+t), false, 3)
					addS([]byte(s+t), false, 3)
				}
			}
			for _, s := range strPool {
				for _, h := range []bool{false, true} {
					addS([]byte(s), h, 3)
				}
			}
			// around maxTokenLen
			for n := 60; n <= 70; n++ {
				addS(bytes.Repeat([]byte("a"), n), false, 3)
				addS(append(bytes.Repeat([]byte("a"), n-1), 0xc3), false, 3)
				addS(append(bytes.Repeat([]byte("é"), n/2), 'x'), false, 3)
			}
			rep.Count("stream.spellings", int64(len(numberLike)*2+len(strPool)*2))
		}
		flush()
		if !on("trees") {
			return
		}
		g := &treeGen{r: lib.NewRng(*seed)}
		nTrees := 6000
		if full {
			nTrees = 120000
		}
		var tcur []treeItem
		tflush := func() {
			if len(tcur) > 0 {
				emit(treeJob(tcur))
				tcur = nil
			}
		}
		addT := func(v any, o wopts) {
			tcur = append(tcur, treeItem{v, o})
			if len(tcur) >= 32 {
				tflush()
			}
		}
		writers := []string{"sen.String", "sen.Bytes", "sen.Write", "pretty.SEN", "pretty.WriteSEN"}
		randOpts := func(wr string, v any) wopts {
			o := wopts{writer: wr, html: g.r.Intn(3) == 0, limit: lib.Pick(g.r, []int{0, 1, 2, 3, 7, 64, 1024})}
			if strings.HasPrefix(wr, "sen.") {
				o.indent = lib.Pick(g.r, []int{0, 0, 0, 1, 2, 3, 4})
				o.tab = g.r.Intn(6) == 0
				o.sort = g.r.Bool()
				o.omitNil = g.r.Intn(3) == 0
				o.omitEmpty = g.r.Intn(3) == 0
			} else {
				// how pretty omits members is C04's subject (known findings there); here the omission options
				// are switched on only where they have nothing to omit and must therefore change nothing
				o.omitNil = !hasNil(v) && g.r.Intn(3) == 0
				o.omitEmpty = !hasEmpty(v) && g.r.Intn(3) == 0
				o.width = lib.Pick(g.r, []int{1, 10, 20, 40, 80, 80, 120, 200})
				o.maxDepth = lib.Pick(g.r, []int{1, 2, 3, 3, 4, 6})
				o.align = g.r.Intn(3) == 0
				o.sort = true
			}
			return o
		}
		for i := 0; i < nTrees; i++ {
			v := g.tree(1 + g.r.Intn(4))
			for k := 0; k < 3; k++ {
				addT(v, randOpts(lib.Pick(g.r, writers), v))
			}
			rep.Count("stream.random_trees", 1)
		}
		// omission: every subset of {"" [] {} nil} (and two members that stay) as member values of an object that is
		// the document, an array element, a member value and a member two levels down, under EVERY combination of
		// writer x indent x tab x Sort x OmitNil x OmitEmpty for the sen writers; for the pretty writers OmitNil on
		// the nil-free and OmitEmpty on the empty-free trees of the family (where they must be no-ops)
		if on("omit") {
			emptyish := []struct {
				k string
				v any
			}{{"s", ""}, {"a", []any{}}, {"m", map[string]any{}}, {"n", nil}}
			for mask := 0; mask < 1<<len(emptyish); mask++ {
				mk := func() map[string]any {
					m := map[string]any{"x": "v", "i": int64(1)}
					for bi, e := range emptyish {
						if mask&(1<<bi) != 0 {
							m[e.k] = e.v
						}
					}
					return m
				}
				shapes := []any{mk(), []any{mk(), "z"}, map[string]any{"o": mk(), "y": true},
					map[string]any{"p": map[string]any{"q": mk()}, "e": []any{mk()}}}
				for _, v := range shapes {
					for _, wr := range writers {
						if strings.HasPrefix(wr, "sen.") {
							for _, ind := range []int{0, 2} {
								for _, tab := range []bool{false, true} {
									for bits := 0; bits < 8; bits++ {
										addT(v, wopts{writer: wr, indent: ind, tab: tab, sort: bits&1 != 0, omitNil: bits&2 != 0, omitEmpty: bits&4 != 0})
									}
								}
							}
						} else {
							for bits := 0; bits < 4; bits++ {
								o := wopts{writer: wr, width: 80, maxDepth: 3, sort: true, omitNil: bits&1 != 0, omitEmpty: bits&2 != 0}
								if (o.omitNil && hasNil(v)) || (o.omitEmpty && hasEmpty(v)) {
									continue
								}
								addT(v, o)
								o.width, o.maxDepth, o.align = 20, 2, true
								addT(v, o)
							}
						}
					}
					rep.Count("stream.omission_family", 1)
				}
			}
			rep.Exhaustive = append(rep.Exhaustive, "omission: 16 subsets of {\"\", [], {}, nil} as member values x 4 positions (document, array element, member value, two levels down) x sen.String/Bytes/Write x indent {0,2} x tab x Sort x OmitNil x OmitEmpty; pretty.SEN/WriteSEN x OmitNil (nil-free trees) x OmitEmpty (empty-free trees) x two widths")
		}
		// every pool string alone, in an array, as a key and as a member value, through every writer
		for _, s := range append(append([]string{}, strPool...), numberLike...) {
			for _, wr := range writers {
				o := wopts{writer: wr, width: 80, maxDepth: 3, sort: true}
				addT(s, o)
				addT([]any{s, s}, o)
				addT(map[string]any{s: s, "k": []any{s}}, o)
				o.indent = 2
				o.html = true
				addT(map[string]any{s: map[string]any{s: 1.5}}, o)
			}
			rep.Count("stream.pool_strings", 1)
		}
		// numbers
		for _, n := range intPool {
			addT([]any{n, map[string]any{"a": n}}, wopts{writer: "sen.String", sort: true})
			addT([]any{n}, wopts{writer: "pretty.SEN", width: 80, maxDepth: 3, sort: true})
		}
		// uint64 leaves (strconv.AppendUint): up to and beyond the int64 range
		for _, u := range []uint64{0, 7, 1 << 62, 9223372036854775799, 9223372036854775800, 9223372036854775807, 1 << 63, 1<<63 + 1,
			9999999999999999999, 10000000000000000000, 12345678901234567890, 18446744073709551614, 18446744073709551615} {
			addT([]any{u, map[string]any{"a": u}}, wopts{writer: "sen.String", sort: true})
			addT([]any{u, map[string]any{"a": u}}, wopts{writer: "sen.Write", sort: true, indent: 2, limit: 3})
			addT(u, wopts{writer: "sen.Bytes", sort: true})
			addT([]any{u}, wopts{writer: "pretty.SEN", width: 80, maxDepth: 3, sort: true})
			rep.Count("stream.uint64", 1)
		}
		for _, f := range floatPool {
			addT([]any{f, -f, map[string]any{"a": f}}, wopts{writer: "sen.String", sort: true})
			addT([]any{f}, wopts{writer: "pretty.SEN", width: 80, maxDepth: 3, sort: true})
		}
		// nesting beyond the indentation clamps (64 x 2 spaces, 128 spaces, 30 tabs)
		depths := []int{28, 31, 33, 62, 63, 64, 65, 66, 124, 125, 126, 127, 128, 129, 130, 131, 133}
		for _, dp := range depths {
			for _, leaf := range []any{int64(1), []any{int64(1), int64(2)}, []any{"a", "b", "c"}, map[string]any{"a": int64(1), "b": "x y"}} {
				for _, obj := range []bool{false, true} {
					v := deep(dp, leaf, obj)
					addT(v, wopts{writer: "pretty.SEN", width: 80, maxDepth: 3, sort: true})
					addT(v, wopts{writer: "pretty.SEN", width: 20, maxDepth: 2, sort: true, align: true})
					addT(v, wopts{writer: "sen.String", indent: 2, sort: true})
					addT(v, wopts{writer: "sen.String", indent: 4, sort: true})
					addT(v, wopts{writer: "sen.String", tab: true, sort: true})
					addT(v, wopts{writer: "sen.String", sort: true})
					addT(v, wopts{writer: "sen.Write", sort: true, limit: 3})
				}
			}
			rep.Count("stream.deep_nesting", 1)
		}
		tflush()
	})
	rep.Rule = "strings: AppendSENString then sen.Parser.Parse in value, key and top-level position, expected: the same string (invalid UTF-8 replaced by U+FFFD); trees: seeded random trees (all kinds; strings from a pool of reserved words, number-like and sign spellings, operators, delimiters, quotes, comment markers, control bytes, invalid UTF-8, long strings; int64 extremes; finite float shapes), the pool through every writer, deep nesting past the indentation clamps; each tree x options (indent, tab, Sort, OmitNil, OmitEmpty, HTML-safe, WriteLimit for the sen writers; width, depth, align and — where they have nothing to omit — OmitNil/OmitEmpty for the pretty writers) through sen.String, sen.Bytes, sen.Write, pretty.SEN, pretty.WriteSEN; an exhaustive omission family (\"\", [], {}, nil members x every option combination); oracle: sen.Parse(text) equals the tree (strings stay strings, numbers by value, keys exact, members omitted per OmitNil/OmitEmpty); tie: model writer bytes == Go bytes (AppendSENString always; the tight writer when the member order is determined), model parser outcome == sen.Parse outcome on every written text; distinct_nontrivial counts the distinct (string, HTML-safe, positions) and (tree, options) cases by a 64-bit hash folded into a bit set (a lower bound: a collision counts as a duplicate)"
}
