package main

import (
	"fmt"
	"strconv"
	"strings"

	"verif/harness/lib"
)

// One representative per byte class of the strict-JSON tables, plus every byte a fast path tests.
var alphaSmall = []byte(`[]{},:"01-.e n\`)
var alphaTiny = []byte(`[]{},:"1 n`)
var alphaWide = []byte("[]{},:\"019-+.eE ntfalsru\\\n\t/bx\x00\x7f\x80\xef")

// enumStrings calls f with every string over alpha of length 0..maxLen.
func enumStrings(alpha []byte, maxLen int, shard, shards int, f func([]byte)) {
	buf := make([]byte, 0, maxLen)
	var rec func(depth int)
	cnt := 0
	rec = func(depth int) {
		if cnt%shards == shard {
			f(buf)
		}
		cnt++
		if depth == maxLen {
			return
		}
		for _, c := range alpha {
			buf = append(buf, c)
			rec(depth + 1)
			buf = buf[:len(buf)-1]
		}
	}
	rec(0)
}

// prefixes reaching every mode (the comment names the mode the machine is in after the prefix)
var modePrefixes = []string{
	"",               // value
	"n", "nu", "nul", // null
	"t", "tr", "tru", // true
	"f", "fa", "fal", "fals", // false
	"[1,",                                        // comma
	"[1", "[1 ", "[\"a\"", "[[]", "[{}", "[true", // digit / after
	"{",                     // key1
	"{\"a\":1,",             // key
	"{\"a\"",                // colon
	"{\"a\":",               // value in object
	"{\"a\":1", "{\"a\":1 ", // digit / after in object
	"-",       // neg
	"0", "-0", // zero
	"1", "12", "-3", // digit
	"1.", "0.", // dot
	"1.5", "0.25", // frac
	"1e", "1.5E", // expSign
	"1e+", "1e-", // expZero
	"1e5", "1e+5", "1.5e-07", // exp
	"\"", "\"a", "\"\\n", // string
	"\"\\",                                   // esc
	"\"\\u", "\"\\u0", "\"\\u00", "\"\\u004", // u
	"1 ", "[] ", "{} ", "null", "\"a\"", "\n", // space / value at top
	"{\"a", "{\"a\\", "{\"a\\u00", // key string modes
}

// contexts the prefix is placed in, with the closer that would complete them
var contexts = [][2]string{
	{"", ""},
	{"[", "]"},
	{"{\"k\":", "}"},
	{"[{\"k\":[", "]}]"},
	{" \n [0,", "]\n"},
}

var suffixesQuick = []string{"", "1", "\"", ",1", ":1}", "ull"}

var suffixes = []string{
	"", "]", "}", "\"", "1", ",1", "\"}", ":1}", "0", "e1", " ", ",", "\":1}", "\"]", "ull", "rue", "alse", "041\"", "5", ".5", "-1",
}

// transitionCases enumerates context+prefix+byte+suffix(+closer) for every byte value.
func transitionCases(shard, shards int, full bool, f func([]byte)) {
	ctxs, sufs := contexts[:3], suffixesQuick
	if full {
		ctxs, sufs = contexts, suffixes
	}
	for _, ctx := range ctxs {
		for _, pre := range modePrefixes {
			for b := 0; b < 256; b++ {
				for _, suf := range sufs {
					s := ctx[0] + pre + string([]byte{byte(b)}) + suf + ctx[1]
					f([]byte(s))
					if full && ctx[1] != "" && b < 128 {
						f([]byte(ctx[0] + pre + string([]byte{byte(b)}) + suf))
					}
				}
			}
		}
	}
}

// ---- structured random documents ----

type docGen struct {
	r *lib.Rng
}

var wsChoices = []string{"", "", "", " ", "\n", "\t", "\r\n", "  ", " \n  "}

func (g *docGen) ws() string { return lib.Pick(g.r, wsChoices) }

func (g *docGen) digits(n int, first19 bool) string {
	var sb strings.Builder
	for i := 0; i < n; i++ {
		d := g.r.Intn(10)
		if i == 0 && first19 && d == 0 {
			d = 1 + g.r.Intn(9)
		}
		sb.WriteByte(byte('0' + d))
	}
	return sb.String()
}

var boundaryInts = []string{
	"9223372036854775807", "9223372036854775808", "9223372036854775806", "9223372036854775800", "9223372036854775799",
	"922337203685477580", "922337203685477581", "922337203685477579", "18446744073709551615", "18446744073709551616",
	"1000000000000000000", "999999999999999999", "10000000000000000000", "9999999999999999999", "0", "1", "10",
	"92233720368547758070", "92233720368547758080", "123456789012345678901234567890",
}

func (g *docGen) number() string {
	var sb strings.Builder
	if g.r.Intn(3) == 0 {
		sb.WriteByte('-')
	}
	switch g.r.Intn(8) {
	case 0:
		sb.WriteString(lib.Pick(g.r, boundaryInts))
	case 1:
		sb.WriteString("0")
	default:
		sb.WriteString(g.digits(1+g.r.Intn(lib.Pick(g.r, []int{3, 3, 18, 20, 25})), true))
	}
	if g.r.Intn(3) == 0 {
		sb.WriteByte('.')
		n := 1 + g.r.Intn(lib.Pick(g.r, []int{3, 3, 18, 20, 25}))
		if g.r.Intn(3) == 0 {
			z := g.r.Intn(n)
			sb.WriteString(strings.Repeat("0", z))
			n -= z
		}
		sb.WriteString(g.digits(n, false))
	}
	if g.r.Intn(4) == 0 {
		sb.WriteByte(lib.Pick(g.r, []byte("eE")))
		sb.WriteString(lib.Pick(g.r, []string{"", "+", "-"}))
		switch g.r.Intn(6) {
		case 0:
			sb.WriteString(lib.Pick(g.r, []string{"0", "00", "102", "103", "1022", "1023", "308", "309", "324", "400", "10220", "99999"}))
		default:
			sb.WriteString(g.digits(1+g.r.Intn(3), false))
		}
	}
	return sb.String()
}

var strPieces = []string{
	"a", "b", "key", " ", "x y", "\\n", "\\t", "\\\"", "\\\\", "\\/", "\\b", "\\f", "\\r", "\\u0041", "\\u00e9", "\\u20AC", "\\ud83d\\ude00",
	"\\uD800", "\\udc00", "\\ud800\\u0041", "\\u0000", "\\uFFFF", "é", "€", "\xff", "\x80", "/", "'", "<", "&", "{", "[", ",", ":",
	"true", "null", "1", "-", "\\ud83d", "\\ude00\\ud83d", "\\uDBFF\\uDFFF", "\\ud800\\udc00",
}

func (g *docGen) str() string {
	var sb strings.Builder
	sb.WriteByte('"')
	n := g.r.Intn(4)
	if g.r.Intn(20) == 0 {
		n = 10 + g.r.Intn(30)
	}
	for i := 0; i < n; i++ {
		sb.WriteString(lib.Pick(g.r, strPieces))
	}
	sb.WriteByte('"')
	return sb.String()
}

func (g *docGen) value(depth int) string {
	k := g.r.Intn(10)
	if depth <= 0 && k >= 7 {
		k = g.r.Intn(7)
	}
	switch k {
	case 0:
		return "null"
	case 1:
		return "true"
	case 2:
		return "false"
	case 3, 4:
		return g.number()
	case 5, 6:
		return g.str()
	case 7, 8:
		n := g.r.Intn(4)
		var sb strings.Builder
		sb.WriteString("[" + g.ws())
		for i := 0; i < n; i++ {
			if i > 0 {
				sb.WriteString("," + g.ws())
			}
			sb.WriteString(g.value(depth-1) + g.ws())
		}
		sb.WriteString("]")
		return sb.String()
	default:
		n := g.r.Intn(4)
		var sb strings.Builder
		sb.WriteString("{" + g.ws())
		for i := 0; i < n; i++ {
			if i > 0 {
				sb.WriteString("," + g.ws())
			}
			key := g.str()
			if g.r.Intn(4) == 0 {
				key = "\"a\"" // duplicates
			}
			sb.WriteString(key + g.ws() + ":" + g.ws() + g.value(depth-1) + g.ws())
		}
		sb.WriteString("}")
		return sb.String()
	}
}

func (g *docGen) doc() []byte {
	s := g.ws() + g.value(3) + g.ws()
	if g.r.Intn(25) == 0 {
		s = "\xef\xbb\xbf" + s
	}
	return []byte(s)
}

var mutBytes = []byte("[]{},:\"0123456789-+.eE ntfalsru\\\n\t/\x00\x1f\x7f\x80\xef\xbb\xbf")

// mutate applies 1..3 byte-level edits to a valid document.
func (g *docGen) mutate(in []byte) []byte {
	out := append([]byte{}, in...)
	n := 1 + g.r.Intn(3)
	for i := 0; i < n; i++ {
		switch g.r.Intn(5) {
		case 0: // delete
			if len(out) > 0 {
				p := g.r.Intn(len(out))
				out = append(out[:p], out[p+1:]...)
			}
		case 1: // insert
			p := g.r.Intn(len(out) + 1)
			out = append(out[:p], append([]byte{lib.Pick(g.r, mutBytes)}, out[p:]...)...)
		case 2: // replace
			if len(out) > 0 {
				out[g.r.Intn(len(out))] = lib.Pick(g.r, mutBytes)
			}
		case 3: // truncate
			if len(out) > 0 {
				out = out[:g.r.Intn(len(out))]
			}
		case 4: // duplicate a slice
			if len(out) > 1 {
				a := g.r.Intn(len(out))
				b := a + g.r.Intn(len(out)-a)
				out = append(out[:b], append(append([]byte{}, out[a:b]...), out[b:]...)...)
			}
		}
	}
	return out
}

// tokenSpans splits a document into its tokens (strings with their quotes, punctuation, runs of other
// non-blank bytes: numbers and literals); white space is not a token.
func tokenSpans(in []byte) (spans [][2]int) {
	for i := 0; i < len(in); {
		switch c := in[i]; {
		case c == ' ' || c == '\n' || c == '\t' || c == '\r':
			i++
		case c == '"':
			j := i + 1
			for j < len(in) && in[j] != '"' {
				if in[j] == '\\' {
					j++
				}
				j++
			}
			if j < len(in) {
				j++
			} else {
				j = len(in)
			}
			spans = append(spans, [2]int{i, j})
			i = j
		case strings.IndexByte("[]{},:", c) >= 0:
			spans = append(spans, [2]int{i, i + 1})
			i++
		default:
			j := i
			for j < len(in) && strings.IndexByte("[]{},:\" \n\t\r", in[j]) < 0 {
				j++
			}
			spans = append(spans, [2]int{i, j})
			i = j
		}
	}
	return
}

// tokenMutations: the "almost valid" neighbours of a valid document at TOKEN level — every single token
// deleted, every single token written twice (a missing value, key, colon, comma or bracket anywhere in the
// nesting; C06: faults that need one more member or element AFTER the defect to show).
func tokenMutations(in []byte, maxTokens int, f func([]byte)) {
	sp := tokenSpans(in)
	if len(sp) == 0 || len(sp) > maxTokens {
		return
	}
	for _, s := range sp {
		del := append(append([]byte{}, in[:s[0]]...), in[s[1]:]...)
		f(del)
		dup := append(append(append([]byte{}, in[:s[1]]...), in[s[0]:s[1]]...), in[s[1]:]...)
		f(dup)
	}
}

// numberFamily enumerates number literal shapes (C02): digit counts on both sides of the point,
// leading fraction zeros, exponent forms, boundary values.
func numberFamily(full bool, f func([]byte)) {
	ints := append([]string{}, boundaryInts...)
	for n := 1; n <= 25; n++ {
		ints = append(ints, strings.Repeat("9", n), "1"+strings.Repeat("0", n-1), "12345678901234567890123456789"[:n])
	}
	fracs := []string{""}
	for n := 1; n <= 25; n++ {
		fracs = append(fracs, "."+strings.Repeat("0", n-1)+"1", "."+"12345678901234567890123456789"[:n], "."+strings.Repeat("9", n), "."+strings.Repeat("0", n))
	}
	exps := []string{"", "e0", "e1", "E+1", "e-1", "e10", "e-10", "e102", "e103", "e1022", "e1023", "e-1022", "e-1023", "e308", "e309", "e-324", "e-325", "e00", "e+00017", "e99999", "e-99999"}
	if !full {
		exps = []string{"", "e1", "E-10", "e103", "e-1023"}
	}
	for _, sg := range []string{"", "-"} {
		for _, ip := range ints {
			for fi, fp := range fracs {
				if !full && (fi%3 == 2 || (fi > 12 && fi%5 != 0)) && len(ip) > 3 {
					continue
				}
				for _, ep := range exps {
					f([]byte(sg + ip + fp + ep))
				}
			}
		}
	}
	// ±1 around powers of two and ten
	for _, base := range []string{"9223372036854775807", "18446744073709551615", "9007199254740992", "9007199254740993"} {
		u, _ := strconv.ParseUint(base, 10, 64)
		for d := uint64(0); d < 12; d++ {
			f([]byte(fmt.Sprint(u - d)))
			f([]byte("-" + fmt.Sprint(u-d)))
			f([]byte("[" + fmt.Sprint(u-d) + "]"))
			f([]byte(fmt.Sprint(u-d) + " "))
		}
	}
}

// escapeFamily: every \uXXXX (stride in quick), surrogate combinations, simple escapes.
func escapeFamily(full bool, f func([]byte)) {
	stride := 1
	if !full {
		stride = 37
	}
	for u := 0; u < 0x10000; u += stride {
		f([]byte(fmt.Sprintf("\"\\u%04x\"", u)))
		if u%5 == 0 {
			f([]byte(fmt.Sprintf("\"\\u%04X\"", u)))
		}
	}
	edges := []int{0xD7FF, 0xD800, 0xD801, 0xDBFF, 0xDC00, 0xDC01, 0xDFFF, 0xE000, 0x0041, 0xFFFF, 0x0000}
	for _, a := range edges {
		for _, b := range edges {
			f([]byte(fmt.Sprintf("\"\\u%04x\\u%04x\"", a, b)))
			f([]byte(fmt.Sprintf("[\"x\\u%04x\\u%04xy\"]", a, b)))
			f([]byte(fmt.Sprintf("{\"\\u%04x\\u%04x\":1}", a, b)))
			f([]byte(fmt.Sprintf("\"\\u%04xz\\u%04x\"", a, b)))
		}
	}
	for _, e := range []byte("\"\\/bfnrtuxU0a'") {
		f([]byte("\"\\" + string([]byte{e}) + "\""))
		f([]byte("\"a\\" + string([]byte{e}) + "b\""))
	}
}

// bigFamily: documents whose tokens straddle the 4096-byte refill boundary.
func bigFamily(g *docGen, n int, f func([]byte)) {
	tokens := []string{"\"abc\\n\\u0041def\"", "123456.789e-5", "true", "false", "null", "\n    ", "[1,2]", "{\"k\":\"v\"}", "-0.5", "\"\\ud83d\\ude00\"", "12345678901234567890123"}
	for i := 0; i < n; i++ {
		tok := tokens[i%len(tokens)]
		for shift := -2; shift <= len(tok)+1; shift++ {
			padLen := 4096 - 1 - shift // '[' + pad + tok
			if padLen < 0 {
				continue
			}
			var pad string
			switch g.r.Intn(3) {
			case 0:
				pad = strings.Repeat(" ", padLen)
			case 1:
				if padLen >= 3 {
					pad = "\"" + strings.Repeat("x", padLen-3) + "\","
				} else {
					pad = strings.Repeat(" ", padLen)
				}
			default:
				pad = strings.Repeat("\n", padLen/2) + strings.Repeat(" ", padLen-padLen/2)
			}
			doc := "[" + pad + tok + "]"
			f([]byte(doc))
			if g.r.Intn(2) == 0 {
				f([]byte(doc[:len(doc)-1] + lib.Pick(g.r, []string{"", ",", "}", "x", " 1"})))
			}
		}
	}
}

// deepFamily: nesting far beyond what the random documents reach (arrays, objects, alternating),
// balanced, one closer short, one closer too many and a mismatched innermost closer; and wide
// containers. A depth or size limit, a stack growth slip or a capacity-dependent path only shows here.
func deepFamily(full bool, f func([]byte)) {
	depths := []int{7, 8, 15, 16, 17, 31, 32, 33, 63, 64, 65, 100, 101, 127, 128, 129, 255, 256, 257, 1000, 1024, 1025}
	if full {
		depths = append(depths, 2047, 2048, 2049, 4095, 4096, 4097, 10000)
	}
	for _, d := range depths {
		for kind := 0; kind < 3; kind++ {
			var open, cl strings.Builder
			closers := make([]byte, 0, d)
			for i := 0; i < d; i++ {
				arr := kind == 0 || (kind == 2 && i%2 == 0)
				if arr {
					open.WriteByte('[')
					closers = append(closers, ']')
				} else {
					open.WriteString(`{"a":`)
					closers = append(closers, '}')
				}
			}
			for i := d - 1; i >= 0; i-- {
				cl.WriteByte(closers[i])
			}
			o, c := open.String(), cl.String()
			f([]byte(o + "1" + c))
			f([]byte(o + "1" + c[:len(c)-1]))
			f([]byte(o + "1" + c + c[len(c)-1:]))
			wrong := byte(']')
			if c[0] == ']' {
				wrong = '}'
			}
			f([]byte(o + "1" + string(wrong) + c[1:]))
			f([]byte(o + c)) // empty innermost container (valid for arrays, an error for objects' `:`)
			f([]byte(o + `"x\n"` + c + " "))
		}
	}
	widths := []int{100, 1000}
	if full {
		widths = append(widths, 5000, 20000)
	}
	for _, n := range widths {
		var a, o1, o2 strings.Builder
		a.WriteByte('[')
		o1.WriteByte('{')
		o2.WriteByte('{')
		for i := 0; i < n; i++ {
			if i > 0 {
				a.WriteByte(',')
				o1.WriteByte(',')
				o2.WriteByte(',')
			}
			fmt.Fprintf(&a, "%d", i)
			fmt.Fprintf(&o1, `"k%d":%d`, i, i)
			fmt.Fprintf(&o2, `"k":%d`, i)
		}
		f([]byte(a.String() + "]"))
		f([]byte(a.String() + ",]"))
		if n > 5000 {
			// objects stop at 5000 members: the Lean model files members in an association list, so one
			// model answer for a 20000-member object costs a minute and every entry variant x chunking
			// asks for its own (the thorough run then ends in an hour-long tail on one worker)
			continue
		}
		f([]byte(o1.String() + "}"))
		f([]byte(o2.String() + "}"))
		f([]byte(o1.String()))
	}
}
