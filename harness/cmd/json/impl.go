package main

import (
	"bytes"
	"encoding/json"
	"errors"
	"fmt"
	"io"
	"strings"

	"github.com/ohler55/ojg/alt"
	"github.com/ohler55/ojg/gen"
	"github.com/ohler55/ojg/oj"
	"github.com/ohler55/ojg/sen"

	"verif/harness/lib"
)

// chunkReader delivers the input in the given chunk lengths (the rest in one piece), then io.EOF.
// eofWithLast=true returns io.EOF together with the last chunk.
type chunkReader struct {
	data        []byte
	chunks      []int
	ci          int
	eofWithLast bool
}

func (r *chunkReader) Read(p []byte) (int, error) {
	if len(r.data) == 0 {
		return 0, io.EOF
	}
	if r.ci < len(r.chunks) && r.chunks[r.ci] == 0 {
		// an empty read: (0, nil), as io.Reader allows (discouraged, not forbidden)
		r.ci++
		return 0, nil
	}
	n := len(r.data)
	if r.ci < len(r.chunks) && r.chunks[r.ci] < n {
		n = r.chunks[r.ci]
	}
	r.ci++
	if n > len(p) {
		n = len(p)
	}
	if n <= 0 {
		n = 1
	}
	copy(p, r.data[:n])
	r.data = r.data[n:]
	if len(r.data) == 0 && r.eofWithLast {
		return n, io.EOF
	}
	return n, nil
}

// Outcome of one front-end on one input.
type Outcome struct {
	OK    bool
	Tree  string // canonical tree(s), ';' separated in multi mode; "" for the validator
	Line  int
	Col   int
	Kind  string // error kind
	Msg   string
	Panic string
}

func (o Outcome) String() string {
	if o.Panic != "" {
		return "panic " + o.Panic
	}
	if o.OK {
		return "ok " + o.Tree
	}
	return fmt.Sprintf("err %d %d %s", o.Line, o.Col, o.Kind)
}

func errKind(msg string) string {
	switch {
	case strings.HasPrefix(msg, "unexpected object close"):
		return "objclose"
	case strings.HasPrefix(msg, "unexpected array close"):
		return "arrclose"
	case strings.HasPrefix(msg, "unexpected comma"):
		return "comma"
	case strings.HasPrefix(msg, "incomplete JSON"):
		return "incomplete"
	case strings.HasPrefix(msg, "expected true"):
		return "exptrue"
	case strings.HasPrefix(msg, "expected false"):
		return "expfalse"
	case strings.HasPrefix(msg, "expected null"):
		return "expnull"
	}
	return "byte"
}

func fromErr(err error) Outcome {
	var pe *oj.ParseError
	if errors.As(err, &pe) {
		return Outcome{Line: pe.Line, Col: pe.Column, Kind: errKind(pe.Message), Msg: pe.Message}
	}
	var ge *gen.ParseError
	if errors.As(err, &ge) {
		return Outcome{Line: ge.Line, Col: ge.Column, Kind: errKind(ge.Message), Msg: ge.Message}
	}
	msg := err.Error()
	if strings.HasPrefix(msg, "expected BOM at 1:3") {
		return Outcome{Line: 1, Col: 3, Kind: "byte", Msg: msg}
	}
	// "msg at L:C"
	var l, c int
	if i := strings.LastIndex(msg, " at "); i >= 0 {
		if _, e := fmt.Sscanf(msg[i+4:], "%d:%d", &l, &c); e == nil {
			return Outcome{Line: l, Col: c, Kind: errKind(msg[:i]), Msg: msg}
		}
	}
	return Outcome{Line: -1, Col: -1, Kind: "other", Msg: msg}
}

func guard(f func() Outcome) (o Outcome) {
	defer func() {
		if r := recover(); r != nil {
			o = Outcome{Panic: strings.ReplaceAll(fmt.Sprint(r), " ", "_")}
		}
	}()
	return f()
}

type treeCollector struct {
	docs []string
}

func (c *treeCollector) add(v any) { c.docs = append(c.docs, lib.Render(v)) }

// buildHandler rebuilds values from tokenizer callbacks with alt.Builder (the route C03 names).
type buildHandler struct {
	b     alt.Builder
	key   *string
	depth int
	docs  []string
	err   error
}

func (h *buildHandler) k() []string {
	if h.key != nil {
		k := *h.key
		h.key = nil
		return []string{k}
	}
	return nil
}
func (h *buildHandler) val(v any) {
	if h.depth == 0 {
		h.docs = append(h.docs, lib.Render(v))
		return
	}
	if e := h.b.Value(v, h.k()...); e != nil && h.err == nil {
		h.err = e
	}
}
func (h *buildHandler) Null()           { h.val(nil) }
func (h *buildHandler) Bool(b bool)     { h.val(b) }
func (h *buildHandler) Int(i int64)     { h.val(i) }
func (h *buildHandler) Float(f float64) { h.val(f) }
func (h *buildHandler) Number(s string) { h.val(jsonNumber(s)) }
func (h *buildHandler) String(s string) { h.val(s) }
func (h *buildHandler) Key(s string)    { h.key = &s }
func (h *buildHandler) ObjectStart() {
	if h.depth == 0 {
		h.b.Reset()
	}
	if e := h.b.Object(h.k()...); e != nil && h.err == nil {
		h.err = e
	}
	h.depth++
}
func (h *buildHandler) ArrayStart() {
	if h.depth == 0 {
		h.b.Reset()
	}
	if e := h.b.Array(h.k()...); e != nil && h.err == nil {
		h.err = e
	}
	h.depth++
}
func (h *buildHandler) end() {
	h.depth--
	if h.depth == 0 {
		h.b.PopAll()
		h.docs = append(h.docs, lib.Render(h.b.Result()))
	} else {
		h.b.Pop()
	}
}
func (h *buildHandler) ObjectEnd() { h.end() }
func (h *buildHandler) ArrayEnd()  { h.end() }

// Variant identifies a front-end entry point.
type Variant struct {
	Name   string
	Table  string // "oj" | "gen": which model tables it corresponds to
	Reader bool
	Values bool
	Run    func(in []byte, chunks []int, multi bool, rec *[]int) Outcome
	// MultiOnly: the variant exists in multi-document mode only (channel delivery)
	MultiOnly bool
}

// drainAny / drainGen render what a channel-mode call delivered AFTER the call has returned, so that
// a document overwritten by a later one (Reuse left on in channel mode) shows.
func drainAny(ch chan any) []string {
	var docs []string
	for {
		select {
		case v := <-ch:
			docs = append(docs, lib.Render(v))
		default:
			return docs
		}
	}
}

func drainGen(ch chan gen.Node) []string {
	var docs []string
	for {
		select {
		case v := <-ch:
			docs = append(docs, lib.Render(v))
		default:
			return docs
		}
	}
}

// Opts are the model flags of the variant: r = reader entry point, f = parser integer fast loop.
func (v *Variant) Opts() string {
	o := ""
	if v.Reader {
		o += "r"
	}
	if strings.HasPrefix(v.Name, "oj.Parse") || strings.HasPrefix(v.Name, "gen.Parser") {
		o += "f"
	}
	if o == "" {
		o = "-"
	}
	return o
}

// recReader records the size of every Read result so that the model can be given the same buffers.
type recReader struct {
	r   io.Reader
	got *[]int
}

func (r *recReader) Read(p []byte) (int, error) {
	n, err := r.r.Read(p)
	if n > 0 || err == nil {
		*r.got = append(*r.got, n) // empty reads (0, nil) are recorded too: the model is given them as empty chunks
	}
	return n, err
}

func rd(in []byte, chunks []int, got *[]int) io.Reader {
	if chunks == nil {
		return &recReader{bytes.NewReader(in), got}
	}
	return &recReader{&chunkReader{data: append([]byte{}, in...), chunks: chunks}, got}
}

func finishTrees(docs []string, multi bool, err error) Outcome {
	if err != nil {
		return fromErr(err)
	}
	if multi {
		return Outcome{OK: true, Tree: strings.Join(docs, ";")}
	}
	if len(docs) == 0 {
		return Outcome{OK: true, Tree: "n"}
	}
	return Outcome{OK: true, Tree: docs[len(docs)-1]}
}

var variants = []Variant{
	{"oj.Parse", "oj", false, true, func(in []byte, _ []int, multi bool, _ *[]int) Outcome {
		return guard(func() Outcome {
			var p oj.Parser
			if multi {
				var c treeCollector
				_, err := p.Parse(in, func(v any) { c.add(v) })
				return finishTrees(c.docs, true, err)
			}
			v, err := p.Parse(in)
			if err != nil {
				return fromErr(err)
			}
			return Outcome{OK: true, Tree: renderSingle(v, in)}
		})
	}, false},
	{"oj.ParseReader", "oj", true, true, func(in []byte, chunks []int, multi bool, rec *[]int) Outcome {
		return guard(func() Outcome {
			var p oj.Parser
			if multi {
				var c treeCollector
				_, err := p.ParseReader(rd(in, chunks, rec), func(v any) { c.add(v) })
				return finishTrees(c.docs, true, err)
			}
			v, err := p.ParseReader(rd(in, chunks, rec))
			if err != nil {
				return fromErr(err)
			}
			return Outcome{OK: true, Tree: renderSingle(v, in)}
		})
	}, false},
	{"oj.Validate", "oj", false, false, func(in []byte, _ []int, multi bool, _ *[]int) Outcome {
		return guard(func() Outcome {
			p := oj.Validator{OnlyOne: !multi}
			if err := p.Validate(in); err != nil {
				return fromErr(err)
			}
			return Outcome{OK: true}
		})
	}, false},
	{"oj.ValidateReader", "oj", true, false, func(in []byte, chunks []int, multi bool, rec *[]int) Outcome {
		return guard(func() Outcome {
			p := oj.Validator{OnlyOne: !multi}
			if err := p.ValidateReader(rd(in, chunks, rec)); err != nil {
				return fromErr(err)
			}
			return Outcome{OK: true}
		})
	}, false},
	{"oj.Tokenizer.Parse+Builder", "oj", false, true, func(in []byte, _ []int, multi bool, _ *[]int) Outcome {
		return guard(func() Outcome {
			var t oj.Tokenizer
			t.OnlyOne = !multi
			h := &buildHandler{}
			err := t.Parse(in, h)
			if err == nil && h.err != nil {
				return Outcome{Panic: "builder:" + strings.ReplaceAll(h.err.Error(), " ", "_")}
			}
			return finishTrees(h.docs, multi, err)
		})
	}, false},
	{"oj.Tokenizer.Load+Builder", "oj", true, true, func(in []byte, chunks []int, multi bool, rec *[]int) Outcome {
		return guard(func() Outcome {
			var t oj.Tokenizer
			t.OnlyOne = !multi
			h := &buildHandler{}
			err := t.Load(rd(in, chunks, rec), h)
			if err == nil && h.err != nil {
				return Outcome{Panic: "builder:" + strings.ReplaceAll(h.err.Error(), " ", "_")}
			}
			return finishTrees(h.docs, multi, err)
		})
	}, false},
	{"gen.Parser.Parse", "gen", false, true, func(in []byte, _ []int, multi bool, _ *[]int) Outcome {
		return guard(func() Outcome {
			var p gen.Parser
			if multi {
				var c treeCollector
				_, err := p.Parse(in, func(v gen.Node) bool { c.add(v); return false })
				return finishTrees(c.docs, true, err)
			}
			v, err := p.Parse(in)
			if err != nil {
				return fromErr(err)
			}
			return Outcome{OK: true, Tree: renderSingle(v, in)}
		})
	}, false},
	{"gen.Parser.ParseReader", "gen", true, true, func(in []byte, chunks []int, multi bool, rec *[]int) Outcome {
		return guard(func() Outcome {
			var p gen.Parser
			if multi {
				var c treeCollector
				_, err := p.ParseReader(rd(in, chunks, rec), func(v gen.Node) bool { c.add(v); return false })
				return finishTrees(c.docs, true, err)
			}
			v, err := p.ParseReader(rd(in, chunks, rec))
			if err != nil {
				return fromErr(err)
			}
			return Outcome{OK: true, Tree: renderSingle(v, in)}
		})
	}, false},
	// channel delivery with Reuse requested: the parser must switch Reuse off (the receiver keeps the
	// documents), in the []byte and in the reader copy of the option handling alike
	{Name: "oj.Parse/chan", Table: "oj", Values: true, MultiOnly: true, Run: func(in []byte, _ []int, _ bool, _ *[]int) Outcome {
		return guard(func() Outcome {
			p := oj.Parser{Reuse: true}
			ch := make(chan any, len(in)+2)
			_, err := p.Parse(in, ch)
			return finishTrees(drainAny(ch), true, err)
		})
	}},
	{Name: "oj.ParseReader/chan", Table: "oj", Reader: true, Values: true, MultiOnly: true, Run: func(in []byte, chunks []int, _ bool, rec *[]int) Outcome {
		return guard(func() Outcome {
			p := oj.Parser{Reuse: true}
			ch := make(chan any, len(in)+2)
			_, err := p.ParseReader(rd(in, chunks, rec), ch)
			return finishTrees(drainAny(ch), true, err)
		})
	}},
	{Name: "gen.Parser.Parse/chan", Table: "gen", Values: true, MultiOnly: true, Run: func(in []byte, _ []int, _ bool, _ *[]int) Outcome {
		return guard(func() Outcome {
			p := gen.Parser{Reuse: true}
			ch := make(chan gen.Node, len(in)+2)
			_, err := p.Parse(in, ch)
			return finishTrees(drainGen(ch), true, err)
		})
	}},
	{Name: "gen.Parser.ParseReader/chan", Table: "gen", Reader: true, Values: true, MultiOnly: true, Run: func(in []byte, chunks []int, _ bool, rec *[]int) Outcome {
		return guard(func() Outcome {
			p := gen.Parser{Reuse: true}
			ch := make(chan gen.Node, len(in)+2)
			_, err := p.ParseReader(rd(in, chunks, rec), ch)
			return finishTrees(drainGen(ch), true, err)
		})
	}},
}

// renderSingle renders the single-document result (nil for "no document" and for `null` alike).
func renderSingle(v any, in []byte) string { return lib.Render(v) }

func jsonNumber(s string) any { return json.Number(s) }

// senParse is used for "strict JSON through the SEN parser" (C03).
func senParse(in []byte) Outcome {
	return guard(func() Outcome {
		var p sen.Parser
		v, err := p.Parse(in)
		if err != nil {
			return fromErr(err)
		}
		return Outcome{OK: true, Tree: renderSingle(v, in)}
	})
}
