// Correspondence and oracle harness for the strict-JSON machine family (C01 C02 C03 C06 C09).
//
// For every generated input it runs the real front-ends (whole buffer and chunked readers, single and
// multi document), asks the Lean driver for the model outcome (machine over the regenerated tables),
// the reference-automaton outcome and the RFC 8259 specification outcome, and reports
//
//	disagreement: model outcome != implementation outcome            (the tie)
//	violation:    implementation outcome contradicts the property     (the oracle)
//
// Only findings that belong to the requested property are reported.
package main

import (
	"bytes"
	"encoding/json"
	"flag"
	"fmt"
	"hash/fnv"
	"os"
	"strings"
	"sync"
	"sync/atomic"

	"github.com/ohler55/ojg/gen"
	"github.com/ohler55/ojg/oj"

	"verif/harness/lib"
)

var (
	prop    = flag.String("prop", "C01", "property id")
	tier    = flag.String("tier", "quick", "quick|thorough")
	seed    = flag.Uint64("seed", 1, "PRNG seed")
	driver  = flag.String("driver", "", "path of drv_json")
	outPath = flag.String("out", "", "report path")
	replay  = flag.String("replay", "", "replay file (json with hex input)")
	corpus  = flag.String("corpus", "", "corpus file: one hex input per line")
	known   = flag.String("known", "", "known_findings.json")
	workers = flag.Int("workers", 16, "parallel workers")
)

type caseRes struct {
	in []byte
}

var rep *lib.Report
var knownList []lib.Known

func main() {
	flag.Parse()
	rep = lib.NewReport(*prop, *tier, *seed)
	knownList = lib.LoadKnown(*known, *prop)
	if *replay != "" {
		runReplay()
		return
	}
	full := *tier == "thorough"
	inputs := make(chan [][]byte, 64)
	var wg sync.WaitGroup
	var fatal atomic.Value
	for w := 0; w < *workers; w++ {
		wg.Add(1)
		go func() {
			defer wg.Done()
			d, err := lib.StartDriver(*driver)
			if err != nil {
				fatal.Store(err.Error())
				for range inputs {
				}
				return
			}
			defer d.Close()
			for batch := range inputs {
				if err := processBatch(d, batch); err != nil {
					fatal.Store(err.Error())
				}
			}
		}()
	}
	// producer
	var cur [][]byte
	curBytes := 0
	seen := map[uint64]struct{}{}
	emit := func(in []byte) {
		h := fnv.New64a()
		h.Write(in)
		k := h.Sum64()
		if _, dup := seen[k]; dup {
			rep.Count("stream.duplicates_skipped", 1)
			return
		}
		seen[k] = struct{}{}
		cur = append(cur, append([]byte{}, in...))
		curBytes += len(in)
		if len(cur) >= 256 || curBytes >= 16384 {
			inputs <- cur
			cur = nil
			curBytes = 0
		}
	}
	// 1. corpus first
	if *corpus != "" {
		data, err := os.ReadFile(*corpus)
		if err != nil {
			fmt.Fprintln(os.Stderr, "harness failure: corpus:", err)
			os.Exit(3)
		}
		for ln, line := range strings.Split(string(data), "\n") {
			line = strings.TrimSpace(line)
			if line == "" || strings.HasPrefix(line, "#") {
				continue
			}
			b, err := lib.UnhexF(strings.Fields(line)[0])
			if err != nil {
				fmt.Fprintf(os.Stderr, "harness failure: corpus line %d: %v\n", ln+1, err)
				os.Exit(3)
			}
			emit(b)
			rep.Count("stream.corpus", 1)
		}
	}
	on := func(name string) bool {
		sel := os.Getenv("VERIF_STREAMS")
		return sel == "" || strings.Contains(","+sel+",", ","+name+",")
	}
	// 2. exhaustive boxes
	smallLen, wideLen, tinyLen := 4, 3, 5
	if full {
		smallLen, wideLen, tinyLen = 5, 3, 6
	}
	if on("small") {
		enumStrings(alphaSmall, smallLen, 0, 1, func(b []byte) { emit(b); rep.Count("stream.exhaustive_small", 1) })
	}
	if on("tiny") {
		enumStrings(alphaTiny, tinyLen, 0, 1, func(b []byte) { emit(b); rep.Count("stream.exhaustive_tiny", 1) })
		rep.Exhaustive = append(rep.Exhaustive, fmt.Sprintf("all strings of length <= %d over %q", tinyLen, alphaTiny))
	}
	if on("wide") {
		enumStrings(alphaWide, wideLen, 0, 1, func(b []byte) { emit(b); rep.Count("stream.exhaustive_wide", 1) })
	}
	rep.Exhaustive = append(rep.Exhaustive,
		fmt.Sprintf("all strings of length <= %d over %q", smallLen, alphaSmall),
		fmt.Sprintf("all strings of length <= %d over %q", wideLen, alphaWide))
	// 3. every (mode, context, byte) transition
	if on("trans") {
		transitionCases(0, 1, full, func(b []byte) { emit(b); rep.Count("stream.transition", 1) })
	}
	rep.Exhaustive = append(rep.Exhaustive, fmt.Sprintf("%d contexts x %d mode prefixes x 256 bytes x suffixes", len(contexts), len(modePrefixes)))
	// 4. number and escape families
	if on("num") {
		numberFamily(full, func(b []byte) { emit(b); rep.Count("stream.number", 1) })
	}
	if on("esc") {
		escapeFamily(full, func(b []byte) { emit(b); rep.Count("stream.escape", 1) })
	}
	// 5. structured random documents and their mutations
	g := &docGen{r: lib.NewRng(*seed)}
	nDocs := 30000
	if full {
		nDocs = 150000
	}
	if !on("rand") {
		nDocs = 0
	}
	for i := 0; i < nDocs; i++ {
		d := g.doc()
		emit(d)
		rep.Count("stream.random_valid", 1)
		for k := 0; k < 2; k++ {
			emit(g.mutate(d))
			rep.Count("stream.random_mutated", 1)
		}
		if i%10 == 1 { // every single-token deletion and duplication of the document
			tokenMutations(d, 32, func(b []byte) { emit(b); rep.Count("stream.token_mutated", 1) })
		}
		if i%10 == 0 { // several documents in one input (multi-document mode)
			emit(append(append(append([]byte{}, d...), lib.Pick(g.r, []string{" ", "\n", "", ","})...), g.doc()...))
			rep.Count("stream.random_multi", 1)
		}
	}
	// 6. tokens straddling the 4096-byte refill boundary
	nBig := 11
	if full {
		nBig = 44
	}
	if on("big") {
		bigFamily(g, nBig, func(b []byte) { emit(b); rep.Count("stream.straddle4096", 1) })
	}
	// 7. deep and wide documents
	if on("deep") {
		deepFamily(full, func(b []byte) { emit(b); rep.Count("stream.deep_wide", 1) })
	}
	if len(cur) > 0 {
		inputs <- cur
	}
	close(inputs)
	wg.Wait()
	if e := fatal.Load(); e != nil {
		fmt.Fprintln(os.Stderr, "harness failure:", e)
		os.Exit(3)
	}
	rep.Rule = "inputs: corpus, exhaustive strings over class-representative alphabets, every (context, mode prefix, byte, suffix), number-shape and escape families, seeded random documents with byte mutations, tokens straddling offset 4096, nesting depth 7..1025 (thorough: ..10000) of arrays, objects and both alternating (balanced, one closer short, one too many, mismatched) and containers of 100..1000 (thorough: arrays ..20000, objects ..5000) members; each input through 8 entry variants x chunkings x {single, multi} plus 4 channel-delivery variants (Reuse requested) in multi mode; duplicates are dropped before running (64-bit hash); distinct_nontrivial counts the distinct inputs of length >= 2"
	if err := rep.Write(*outPath); err != nil {
		fmt.Fprintln(os.Stderr, err)
		os.Exit(3)
	}
}

// chunkings to try for an input of length n (nil = whole input through bytes.Reader)
func chunkingsFor(in []byte, idx int) [][]int {
	n := len(in)
	res := [][]int{nil}
	if n == 0 {
		return res
	}
	if n <= 600 || idx%8 == 0 {
		ones := make([]int, n)
		for i := range ones {
			ones[i] = 1
		}
		res = append(res, ones)
	}
	if n <= 7 {
		for s := 1; s < n; s++ {
			res = append(res, []int{s})
		}
	} else {
		// a deterministic selection of split points, different for every input
		h := uint64(idx)*0x9E3779B97F4A7C15 + uint64(n)
		for k := 0; k < 3; k++ {
			h = h*6364136223846793005 + 1442695040888963407
			s := 1 + int((h>>33)%uint64(n-1))
			res = append(res, []int{s})
		}
		h = h*6364136223846793005 + 1442695040888963407
		a := 1 + int((h>>33)%7)
		res = append(res, []int{a, a + 1, a + 2, a, 1, 2, 3, 4, 5, 6, 7})
		if n > 4096 {
			res = append(res, []int{4095, 1}, []int{4096}, []int{4094, 3}, []int{2000, 2000, 95, 2})
		}
	}
	// empty reads — Read returning (0, nil) — first, between and several in a row: the reader entry points
	// must treat them as no read at all (C03; before /repo c109a1a an empty FIRST read switched the byte
	// order mark handling off). Always for inputs that start like a BOM, one input in five otherwise.
	if hasBOMPrefix(in) || idx%5 == 0 {
		res = append(res, []int{0}, []int{0, 0, 1, 0}, []int{1, 0, 0, 1, 0, 1, 0, 0, 2})
		if hasBOMPrefix(in) {
			res = append(res, []int{0, 1, 1, 1}, []int{0, 3}, []int{2, 0, 1, 0})
		}
	}
	return res
}

var inputCounter int64

func hasBOMPrefix(in []byte) bool { return len(in) > 0 && in[0] == 0xEF }

type ran struct {
	v     *Variant
	ch    []int // requested chunking (nil = whole)
	reads []int // sizes of the Read results actually delivered
	multi bool
	o     Outcome
	mkey  string   // model request
	bkey  string   // buffer-level model request (parsers only): one parseBuffer call per read, fast paths explicit
	hist  []string // reused/pooled instances: the inputs (hex) the instance saw before this one
	fresh *Outcome // reused/pooled instances: the outcome of a fresh instance on the same call
}

func chunkStr(reads []int) string {
	if len(reads) == 0 {
		return "-"
	}
	var sb strings.Builder
	for i, n := range reads {
		if i > 0 {
			sb.WriteByte(',')
		}
		fmt.Fprint(&sb, n)
	}
	return sb.String()
}

const bufModelMax = 4300

// bufKey is the request for the buffer-level model of a variant (Json/BufModel.lean, op `runbuf`, for the
// parsers; Json/BufModelV.lean, ops `runbufv` / `runbuft`, for the validator and the tokenizer): the same arguments as the byte-level `run`, the chunk lengths being the actual read sizes.
func bufKey(v *Variant, mode, reads string, n, idx int) string {
	// by Json.runB_eq_run the answer equals the byte-level model's, so short inputs are sampled (one in
	// three; every input of 24 bytes or more and every corpus input is asked), multi mode one in six
	if n < 24 && idx%3 != 0 && idx > 2000 {
		return ""
	}
	if mode == "multi" && idx%6 != 0 {
		return ""
	}
	// (the list-indexing model costs ~70 ms on a 4 KB buffer) long inputs: single mode, and only the runs
	// whose reads are the reader's own 4096-byte refills or the whole input
	if n > 512 && (mode == "multi" || (reads != "-" && !strings.HasPrefix(reads, "4096") && strings.Contains(reads, ","))) {
		return ""
	}
	// the buffer-level model indexes a list (`buf[off]?`, `buf.drop (off+1)`): quadratic in the buffer
	// length, so it is asked for inputs up to bufModelMax bytes (the 4096-straddling families included)
	op := "runbuf" // oj.Parser, gen.Parser
	switch {
	case strings.HasPrefix(v.Name, "oj.Validate"):
		op = "runbufv"
	case strings.HasPrefix(v.Name, "oj.Tokenizer"):
		op = "runbuft"
	case !strings.Contains(v.Opts(), "f"):
		return ""
	}
	if n > bufModelMax {
		return ""
	}
	opts := v.Opts()
	if opts == "" {
		opts = "-"
	}
	return op + "\t" + v.Table + "\t" + mode + "\t" + opts + "\t" + reads
}

func runAll(in []byte, idx int) []ran {
	chunkings := chunkingsFor(in, idx)
	var runs []ran
	for vi := range variants {
		v := &variants[vi]
		for _, multi := range []bool{false, true} {
			if v.MultiOnly && !multi {
				continue
			}
			mode := "single"
			if multi {
				mode = "multi"
			}
			if v.Reader {
				for _, ch := range chunkings {
					var reads []int
					o := v.Run(in, ch, multi, &reads)
					runs = append(runs, ran{v: v, ch: ch, reads: reads, multi: multi, o: o, mkey: "run\t" + v.Table + "\t" + mode + "\t" + v.Opts() + "\t" + chunkStr(reads), bkey: bufKey(v, mode, chunkStr(reads), len(in), idx)})
				}
			} else {
				o := v.Run(in, nil, multi, nil)
				runs = append(runs, ran{v: v, multi: multi, o: o, mkey: "run\t" + v.Table + "\t" + mode + "\t" + v.Opts() + "\t-", bkey: bufKey(v, mode, "-", len(in), idx)})
			}
		}
	}
	return runs
}

// reused holds one long-lived instance of every front-end per worker: every input is also run on it,
// after whatever the previous inputs (valid, malformed, truncated) left behind, and through the
// package-level pooled functions; the outcome must be that of a fresh instance (C07) and must not be
// a panic (C06).
type reused struct {
	p    oj.Parser
	v    oj.Validator
	t    oj.Tokenizer
	g    gen.Parser
	hist [][]byte // the last inputs this worker processed (for the replay)
}

var reusedOf sync.Map // *lib.Driver -> *reused

func reuseRuns(ru *reused, in []byte, idx int) []ran {
	var out []ran
	ch := []int(nil)
	if len(in) > 1 {
		ch = []int{1 + idx%(len(in)-1)}
	}
	add := func(name, like string, reader bool, f func(rec *[]int) Outcome) {
		var reads []int
		o := guard(func() Outcome { return f(&reads) })
		var base *Variant
		for i := range variants {
			if variants[i].Name == like {
				base = &variants[i]
			}
		}
		v := &Variant{Name: name, Table: base.Table, Reader: reader, Values: base.Values}
		optsOf := base.Opts()
		mk := "run\t" + base.Table + "\tsingle\t" + optsOf + "\t-"
		if reader {
			mk = "run\t" + base.Table + "\tsingle\t" + optsOf + "\t" + chunkStr(reads)
		}
		multi := name == "pooled:oj.Validate"
		var r2 []int
		fo := base.Run(in, ch, multi, &r2)
		out = append(out, ran{v: v, ch: ch, reads: reads, multi: false, o: o, mkey: mk, fresh: &fo})
	}
	add("reused:oj.Parser.Parse", "oj.Parse", false, func(_ *[]int) Outcome {
		v, err := ru.p.Parse(in)
		if err != nil {
			return fromErr(err)
		}
		return Outcome{OK: true, Tree: lib.Render(v)}
	})
	add("reused:oj.Parser.ParseReader", "oj.ParseReader", true, func(rec *[]int) Outcome {
		v, err := ru.p.ParseReader(rd(in, ch, rec))
		if err != nil {
			return fromErr(err)
		}
		return Outcome{OK: true, Tree: lib.Render(v)}
	})
	add("reused:oj.Validator.Validate", "oj.Validate", false, func(_ *[]int) Outcome {
		ru.v.OnlyOne = true
		if err := ru.v.Validate(in); err != nil {
			return fromErr(err)
		}
		return Outcome{OK: true}
	})
	add("reused:oj.Validator.ValidateReader", "oj.ValidateReader", true, func(rec *[]int) Outcome {
		ru.v.OnlyOne = true
		if err := ru.v.ValidateReader(rd(in, ch, rec)); err != nil {
			return fromErr(err)
		}
		return Outcome{OK: true}
	})
	add("reused:oj.Tokenizer.Load+Builder", "oj.Tokenizer.Load+Builder", true, func(rec *[]int) Outcome {
		ru.t.OnlyOne = true
		h := &buildHandler{}
		err := ru.t.Load(rd(in, ch, rec), h)
		return finishTrees(h.docs, false, err)
	})
	add("reused:gen.Parser.Parse", "gen.Parser.Parse", false, func(_ *[]int) Outcome {
		v, err := ru.g.Parse(in)
		if err != nil {
			return fromErr(err)
		}
		return Outcome{OK: true, Tree: lib.Render(v)}
	})
	add("reused:gen.Parser.ParseReader", "gen.Parser.ParseReader", true, func(rec *[]int) Outcome {
		v, err := ru.g.ParseReader(rd(in, ch, rec))
		if err != nil {
			return fromErr(err)
		}
		return Outcome{OK: true, Tree: lib.Render(v)}
	})
	add("pooled:oj.Parse", "oj.Parse", false, func(_ *[]int) Outcome {
		v, err := oj.Parse(in)
		if err != nil {
			return fromErr(err)
		}
		return Outcome{OK: true, Tree: lib.Render(v)}
	})
	add("pooled:oj.Load", "oj.ParseReader", true, func(rec *[]int) Outcome {
		v, err := oj.Load(rd(in, ch, rec))
		if err != nil {
			return fromErr(err)
		}
		return Outcome{OK: true, Tree: lib.Render(v)}
	})
	add("pooled:oj.Validate", "oj.Validate", false, func(_ *[]int) Outcome {
		// the package-level function validates in multi-document mode: compare acceptance only when
		// the single-document outcome is an acceptance
		if err := oj.Validate(in); err != nil {
			return fromErr(err)
		}
		return Outcome{OK: true}
	})
	ru.hist = append(ru.hist, in)
	if len(ru.hist) > 4 {
		ru.hist = ru.hist[len(ru.hist)-4:]
	}
	return out
}

func processBatch(d *lib.Driver, batch [][]byte) error {
	ruAny, _ := reusedOf.LoadOrStore(d, &reused{})
	ru := ruAny.(*reused)
	type item struct {
		in   []byte
		idx  int
		runs []ran
		reqs map[string]int
	}
	items := make([]item, len(batch))
	var reqs []string
	for i, in := range batch {
		idx := int(atomic.AddInt64(&inputCounter, 1))
		var histHex []string
		for _, h := range ru.hist {
			histHex = append(histHex, lib.HexF(h))
		}
		runs := runAll(in, idx)
		for _, r := range reuseRuns(ru, in, idx) {
			r.hist = histHex
			runs = append(runs, r)
		}
		it := item{in: in, idx: idx, runs: runs, reqs: map[string]int{}}
		hx := lib.HexF(in)
		add := func(key string) {
			if _, ok := it.reqs[key]; !ok {
				it.reqs[key] = len(reqs)
				reqs = append(reqs, key+"\t"+hx)
			}
		}
		add("spec")
		add("run\tref\tsingle\t-\t-")
		for _, r := range it.runs {
			add(r.mkey)
			if r.bkey != "" {
				add(r.bkey)
			}
		}
		items[i] = it
	}
	ans, err := d.Ask(reqs)
	if err != nil {
		return err
	}
	for _, it := range items {
		model := map[string]string{}
		for k, i := range it.reqs {
			model[k] = ans[i]
		}
		judge(it.in, it.idx, it.runs, model)
	}
	return nil
}

func finding(kind, forProp, class, what string, in []byte, extra map[string]any) {
	if forProp != *prop {
		return
	}
	r := map[string]any{"input_hex": lib.HexF(in), "input_text": fmt.Sprintf("%q", string(trunc(in)))}
	for k, v := range extra {
		r[k] = v
	}
	f := lib.Finding{Kind: kind, Class: class, What: what, Replay: r}
	if kind == "violation" {
		if id := lib.MatchKnown(knownList, class, in); id != "" {
			f.Kind = "known"
			f.KnownID = id
		}
	}
	rep.Add(f)
}

// treesEqualModuloInt19 compares two rendered outcomes (';'-separated documents in multi mode).
func treesEqualModuloInt19(a, b string) (bool, bool) {
	as, bs := strings.Split(a, ";"), strings.Split(b, ";")
	if len(as) != len(bs) {
		return false, false
	}
	used := false
	for i := range as {
		x, e1 := lib.ParseCanon(as[i])
		y, e2 := lib.ParseCanon(bs[i])
		if e1 != nil || e2 != nil {
			if as[i] != bs[i] {
				return false, false
			}
			continue
		}
		eq, u := lib.EqualModuloInt19(x, y)
		if !eq {
			return false, false
		}
		used = used || u
	}
	return true, used
}

// knownFinding records an occurrence of a listed known finding (decided by a semantic test).
func knownFinding(forProp, id, class, what string, in []byte, extra map[string]any) {
	if forProp != *prop {
		return
	}
	r := map[string]any{"input_hex": lib.HexF(in), "input_text": fmt.Sprintf("%q", string(trunc(in)))}
	for k, v := range extra {
		r[k] = v
	}
	rep.Add(lib.Finding{Kind: "known", Class: class, What: what, Replay: r, KnownID: id})
}

func trunc(in []byte) []byte {
	if len(in) > 200 {
		return append(append([]byte{}, in[:100]...), append([]byte("…"), in[len(in)-80:]...)...)
	}
	return in
}

// modelOutcome canonicalises a driver answer for comparison with an implementation outcome.
func modelOutcome(ans string, values, multi bool) string {
	if strings.HasPrefix(ans, "ok") {
		if !values {
			return "ok "
		}
		t := strings.TrimPrefix(strings.TrimPrefix(ans, "ok"), " ")
		t = lib.FloatTextToBits(t)
		if !multi {
			if t == "" {
				t = "n"
			} else if i := strings.LastIndex(t, ";"); i >= 0 {
				t = t[i+1:]
			}
		}
		return "ok " + t
	}
	return ans
}

func implOutcome(o Outcome, values bool) string {
	if o.OK && !values {
		return "ok "
	}
	return o.String()
}

func judge(in []byte, idx int, runs []ran, model map[string]string) {
	spec := model["spec"]
	nontrivial := int64(0)
	if len(in) >= 2 {
		nontrivial = 1
	}
	rep.AddEval(1, nontrivial)
	rep.Count("runs", int64(len(runs)))
	if idx%9973 == 1 {
		rep.Sample(map[string]any{"input": fmt.Sprintf("%q", string(trunc(in))), "spec": spec, "impl_first": runs[0].o.String(), "model_first": model[runs[0].mkey]})
	}
	specOK := spec != "bad"
	rep.Count("spec."+strings.Fields(spec + " x")[0], 1)
	var specTree *lib.Node
	if strings.HasPrefix(spec, "one ") {
		specTree, _ = lib.ParseCanon(spec[4:])
	}
	bomSplit := func(ch []int) bool { return false }
	var firstSingle, firstMulti *ran
	for ri := range runs {
		r := &runs[ri]
		mode := "single"
		if r.multi {
			mode = "multi"
		}
		desc := map[string]any{"variant": r.v.Name, "mode": mode, "chunks": r.ch, "reads": chunkStr(r.reads), "impl": r.o.String(), "spec": spec}
		if r.fresh != nil {
			// a reused or pooled instance: its outcome must be the fresh instance's (C07), never a panic (C06)
			desc["history_hex"] = r.hist
			desc["fresh"] = r.fresh.String()
			rep.Count("reuse_runs", 1)
			if r.o.Panic != "" {
				finding("violation", "C06", "panic:"+r.v.Name, "front-end panicked on a reused/pooled instance: "+r.o.Panic, in, desc)
				finding("violation", "C07", "panic:"+r.v.Name, "front-end panicked on a reused/pooled instance: "+r.o.Panic, in, desc)
			} else if implOutcome(r.o, r.v.Values) != implOutcome(*r.fresh, r.v.Values) {
				finding("violation", "C07", "reuse:"+r.v.Name, "a reused/pooled instance gives another outcome than a fresh one", in, desc)
				finding("violation", "C06", "reuse:"+r.v.Name, "a reused/pooled instance gives another outcome than a fresh one (state left by an earlier call)", in, desc)
			}
			continue
		}
		split := bomSplit(r.ch)
		rep.Count("impl."+strings.Fields(r.o.String())[0], 1)
		// C06: no panic
		if r.o.Panic != "" {
			finding("violation", "C06", "panic:"+r.v.Name, "front-end panicked: "+r.o.Panic, in, desc)
			continue
		}
		// tie: model vs implementation (whole-buffer BOM rule is what the model has)
		m := model[r.mkey]
		mo := modelOutcome(m, r.v.Values, r.multi)
		io := implOutcome(r.o, r.v.Values)
		if r.bkey != "" && !split {
			// the buffer-level model (fast paths explicit, one parseBuffer call per read): by
			// Json.runB_eq_run it answers as the byte-level model; it is compared with the implementation too
			bm := model[r.bkey]
			rep.Count("bufmodel_runs", 1)
			if bm != m {
				desc["model"] = m
				desc["bufmodel"] = bm
				finding("disagreement", "C01", "bufmodel-vs-bytemodel:"+r.v.Name, "buffer-level and byte-level model differ (contradicts Json.runB_eq_run: driver or model build broken)", in, desc)
				delete(desc, "bufmodel")
			}
			bo := modelOutcome(bm, r.v.Values, r.multi)
			if bo != io && mo == io {
				desc["bufmodel"] = bo
				finding("disagreement", "C01", "bufmodel:"+r.v.Name, "buffer-level model and implementation differ", in, desc)
				delete(desc, "bufmodel")
			}
		}
		if !split {
			desc["model"] = mo
			accM, accI := strings.HasPrefix(mo, "ok"), strings.HasPrefix(io, "ok")
			if accM != accI {
				finding("disagreement", "C01", "model-accept:"+r.v.Name, "model and implementation disagree on acceptance", in, desc)
				finding("disagreement", "C06", "model-accept:"+r.v.Name, "model and implementation disagree on acceptance", in, desc)
			} else if accM && mo != io {
				finding("disagreement", "C02", "model-value:"+r.v.Name, "model and implementation build different values", in, desc)
			} else if !accM && mo != io {
				finding("disagreement", "C09", "model-errpos:"+r.v.Name, "model and implementation report different error position or kind", in, desc)
			}
		}
		if r.multi {
			if firstMulti == nil && !split {
				firstMulti = r
			}
		} else {
			// C01 oracle: accept iff exactly one JSON text (or no document)
			if r.o.OK != specOK && !split {
				finding("violation", "C01", "accept:"+r.v.Name, fmt.Sprintf("front-end accepts=%v but RFC 8259 says %v", r.o.OK, specOK), in, desc)
			}
			if split && r.o.OK != specOK {
				finding("violation", "C01", "bom-split:"+r.v.Name, "BOM split across reads is not recognised", in, desc)
			}
			// C02 oracle: the value denotes the text
			if r.o.OK && specTree != nil && r.v.Values {
				it, err := lib.ParseCanon(r.o.Tree)
				if err != nil {
					finding("violation", "C02", "value:"+r.v.Name, "unrenderable value "+err.Error(), in, desc)
				} else if ok, why := lib.Denotes(it, specTree, nil); !ok {
					code := why
					if i := strings.Index(why, ": "); i > 0 {
						code = why[:i]
					}
					al := &lib.Allow{Int19: lib.HasKnown(knownList, "C02-int19") && strings.Contains(r.v.Opts(), "f"),
						Surrogate: lib.HasKnown(knownList, "C02-surrogate")}
					if ok2, _ := lib.Denotes(it, specTree, al); ok2 && al.Used() != "" {
						knownFinding("C02", al.Used(), "value:"+r.v.Name+":"+code, why, in, desc)
					} else {
						finding("violation", "C02", "value:"+r.v.Name+":"+code, "value does not denote the text: "+why, in, desc)
					}
				}
			}
			// C09 oracle: error position = first byte the reference automaton cannot pass. Positions
			// are relative to the JSON text, i.e. behind a byte order mark (formalisation choice: every
			// front-end counts that way). An input that starts with 0xEF but not with a complete BOM
			// followed by a byte is judged by the same rule over "optional BOM, then text": the first
			// byte that deviates from EF BB BF, or just past the end when the input is a prefix of it.
			if !r.o.OK && !specOK {
				want := ""
				efNoBOM := hasBOMPrefix(in) && !(len(in) > 3 && in[1] == 0xBB && in[2] == 0xBF)
				if efNoBOM {
					bom := []byte{0xEF, 0xBB, 0xBF}
					k := 1
					for k < len(in) && k < 3 && in[k] == bom[k] {
						k++
					}
					want = fmt.Sprintf("1:%d", k+1)
				} else {
					ref := model["run\tref\tsingle\t-\t-"]
					rf := strings.Fields(ref)
					if len(rf) >= 3 && rf[0] == "err" {
						want = rf[1] + ":" + rf[2]
					}
				}
				got := fmt.Sprintf("%d:%d", r.o.Line, r.o.Col)
				if want != "" && want != got {
					desc["want_pos"] = want
					if efNoBOM && lib.HasKnown(knownList, "C09-bom-position") {
						knownFinding("C09", "C09-bom-position", "errpos-bom:"+r.v.Name, "input starts with 0xEF but not with a BOM: position "+got+" instead of "+want, in, desc)
					} else {
						finding("violation", "C09", "errpos:"+r.v.Name, "error position "+got+" is not the first offending byte "+want, in, desc)
					}
				}
			}
			if firstSingle == nil && !split {
				firstSingle = r
			}
		}
		// C03 oracle: every front-end and chunking gives the same outcome
		base := firstSingle
		if r.multi {
			base = firstMulti
		}
		if base != nil && base != r && !split {
			same := base.o.OK == r.o.OK
			if same && r.o.OK && base.v.Values && r.v.Values && base.o.Tree != r.o.Tree {
				same = false
			}
			if !same {
				desc["other_variant"] = base.v.Name
				desc["other_chunks"] = base.ch
				desc["other_impl"] = base.o.String()
				cls := "frontends:" + r.v.Name
				if base.v.Name == r.v.Name {
					cls = "chunking:" + r.v.Name
				}
				knownHit := false
				if base.o.OK && r.o.OK && lib.HasKnown(knownList, "C03-int19") {
					if eq, used := treesEqualModuloInt19(base.o.Tree, r.o.Tree); eq && used {
						knownFinding("C03", "C03-int19", cls, "19-digit integer part: parser fast loop gives text, other paths int64/float64", in, desc)
						knownHit = true
					}
				}
				if !knownHit {
					finding("violation", "C03", cls, "front-ends or chunkings disagree on the outcome", in, desc)
				}
			}
		}
		if split && base != nil && base != r && base.o.OK != r.o.OK {
			finding("violation", "C03", "bom-split:"+r.v.Name, "BOM split across reads changes the outcome", in, desc)
		}
	}
	// C03: strict JSON through the SEN parser gives the same tree
	if specTree != nil && firstSingle != nil && firstSingle.o.OK {
		so := senParse(in)
		if so.Panic != "" {
			finding("violation", "C06", "panic:sen.Parse", "sen.Parse panicked: "+so.Panic, in, map[string]any{"impl": so.String()})
		} else if so.OK {
			// C02 through the SEN parser (sen/parser.go is anchored by C02): the value denotes the text
			if it, err := lib.ParseCanon(so.Tree); err == nil {
				if ok, why := lib.Denotes(it, specTree, nil); !ok {
					code := why
					if i := strings.Index(why, ": "); i > 0 {
						code = why[:i]
					}
					al := &lib.Allow{Int19: lib.HasKnown(knownList, "C02-int19"), Surrogate: lib.HasKnown(knownList, "C02-surrogate")}
					d := map[string]any{"variant": "sen.Parse", "impl": so.String(), "spec": spec}
					if ok2, _ := lib.Denotes(it, specTree, al); ok2 && al.Used() != "" {
						knownFinding("C02", al.Used(), "value:sen.Parse:"+code, why, in, d)
					} else {
						finding("violation", "C02", "value:sen.Parse:"+code, "value does not denote the text: "+why, in, d)
					}
				}
			}
		}
		if so.Panic == "" && (!so.OK || so.Tree != firstSingle.o.Tree) {
			finding("violation", "C03", "sen-json", "sen.Parse differs from oj.Parse on a strict JSON text", in,
				map[string]any{"sen": so.String(), "oj": firstSingle.o.String(), "spec": spec})
		}
	}
}

func runReplay() {
	data, err := os.ReadFile(*replay)
	if err != nil {
		fmt.Fprintln(os.Stderr, err)
		os.Exit(3)
	}
	var r struct {
		Replay map[string]any `json:"replay"`
		Input  string         `json:"input_hex"`
	}
	_ = json.Unmarshal(data, &r)
	hx := r.Input
	if hx == "" && r.Replay != nil {
		hx, _ = r.Replay["input_hex"].(string)
	}
	in, err := lib.UnhexF(hx)
	if err != nil {
		fmt.Fprintln(os.Stderr, "bad replay input:", err)
		os.Exit(3)
	}
	d, err := lib.StartDriver(*driver)
	if err != nil {
		fmt.Fprintln(os.Stderr, err)
		os.Exit(3)
	}
	defer d.Close()
	if err := processBatch(d, [][]byte{in}); err != nil {
		fmt.Fprintln(os.Stderr, err)
		os.Exit(3)
	}
	rep.Rule = "replay of one input"
	_ = rep.Write(*outPath)
	var buf bytes.Buffer
	for _, f := range rep.Findings {
		fmt.Fprintf(&buf, "%s %s: %s\n", f.Kind, f.Class, f.What)
	}
	fmt.Print(buf.String())
}
