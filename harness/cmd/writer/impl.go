package main

import (
	"fmt"
	"strconv"
	"strings"

	"github.com/ohler55/ojg"
	"github.com/ohler55/ojg/oj"
	"github.com/ohler55/ojg/pretty"
)

// ojOpts is the part of ojg.Options the property ranges over for the oj writers.
type ojOpts struct {
	Indent                                   int
	Tab, Sort, OmitNil, OmitEmpty, HTMLUnsafe bool
}

func flags(pairs ...any) string {
	var sb strings.Builder
	for i := 0; i+1 < len(pairs); i += 2 {
		if pairs[i+1].(bool) {
			sb.WriteString(pairs[i].(string))
		}
	}
	return sb.String()
}

// String is the option text of the driver protocol: <indent>:<flags>.
func (o ojOpts) String() string {
	return fmt.Sprintf("%d:%s", o.Indent, flags("t", o.Tab, "s", o.Sort, "n", o.OmitNil, "e", o.OmitEmpty, "u", o.HTMLUnsafe))
}

func parseOJ(s string) (o ojOpts, err error) {
	f := strings.Split(s, ":")
	if len(f) != 2 {
		return o, fmt.Errorf("bad oj options %q", s)
	}
	o.Indent, err = strconv.Atoi(f[0])
	o.Tab, o.Sort, o.OmitNil = strings.Contains(f[1], "t"), strings.Contains(f[1], "s"), strings.Contains(f[1], "n")
	o.OmitEmpty, o.HTMLUnsafe = strings.Contains(f[1], "e"), strings.Contains(f[1], "u")
	return
}

func (o ojOpts) options(limit int) *ojg.Options {
	return &ojg.Options{Indent: o.Indent, Tab: o.Tab, Sort: o.Sort, OmitNil: o.OmitNil, OmitEmpty: o.OmitEmpty,
		HTMLUnsafe: o.HTMLUnsafe, WriteLimit: limit}
}

// prOpts is what pretty.Writer is configured with.
type prOpts struct {
	Width, MaxDepth                        int
	Align, OmitNil, OmitEmpty, HTMLUnsafe bool
}

// String is the option text of the driver protocol: <width>:<maxDepth>:<flags>.
func (o prOpts) String() string {
	return fmt.Sprintf("%d:%d:%s", o.Width, o.MaxDepth, flags("a", o.Align, "n", o.OmitNil, "e", o.OmitEmpty, "u", o.HTMLUnsafe))
}

func parsePR(s string) (o prOpts, err error) {
	f := strings.Split(s, ":")
	if len(f) != 3 {
		return o, fmt.Errorf("bad pretty options %q", s)
	}
	if o.Width, err = strconv.Atoi(f[0]); err != nil {
		return
	}
	o.MaxDepth, err = strconv.Atoi(f[1])
	o.Align, o.OmitNil = strings.Contains(f[2], "a"), strings.Contains(f[2], "n")
	o.OmitEmpty, o.HTMLUnsafe = strings.Contains(f[2], "e"), strings.Contains(f[2], "u")
	return
}

func (o prOpts) options(limit int) *ojg.Options {
	return &ojg.Options{OmitNil: o.OmitNil, OmitEmpty: o.OmitEmpty, HTMLUnsafe: o.HTMLUnsafe, WriteLimit: limit}
}

// viaArgs reports whether the configuration can be expressed through the variadic arguments of
// pretty.JSON (width.depth as a float64, align as a bool).
func (o prOpts) viaArgs() bool { return o.Width >= 1 && o.MaxDepth >= 1 && o.MaxDepth <= 9 }

var allOJ, allPR = optionLattice()

func optionLattice() (oj []ojOpts, pr []prOpts) {
	bools := []bool{false, true}
	for _, ind := range []int{0, 1, 2, 3, 8} {
		for _, tab := range bools {
			for _, srt := range bools {
				for _, on := range bools {
					for _, oe := range bools {
						for _, hu := range bools {
							oj = append(oj, ojOpts{ind, tab, srt, on, oe, hu})
						}
					}
				}
			}
		}
	}
	for _, w := range []int{0, 1, 10, 20, 40, 80, 128, 200} {
		for _, d := range []int{0, 1, 2, 3, 4, 9, 12} {
			for _, al := range bools {
				for _, on := range bools {
					for _, oe := range bools {
						for _, hu := range bools {
							pr = append(pr, prOpts{w, d, al, on, oe, hu})
						}
					}
				}
			}
		}
	}
	return
}

type recWriter struct{ chunks [][]byte }

func (w *recWriter) Write(p []byte) (int, error) {
	w.chunks = append(w.chunks, append([]byte{}, p...))
	return len(p), nil
}

func join(cs [][]byte) []byte {
	var out []byte
	for _, c := range cs {
		out = append(out, c...)
	}
	if out == nil {
		out = []byte{}
	}
	return out
}

func guard(r *run, f func()) {
	defer func() {
		if x := recover(); x != nil {
			r.pan = fmt.Sprintf("panic: %v", x)
		}
	}()
	f()
}

// runOJCase calls every oj entry point on the case. Objects with two or more members written
// without Sort come out in an order of the run-time's choosing, so each run is compared on its own
// and fewer limits are tried.
func runOJCase(c *Case) []*run {
	data := c.T.data(c.Flavour)
	var runs []*run
	mem := func(entry string, f func() []byte) {
		r := &run{entry: entry}
		guard(r, func() { r.out = f() })
		runs = append(runs, r)
	}
	mem("oj.JSON", func() []byte { return []byte(oj.JSON(data, c.OJ.options(0))) })
	mem("oj.Marshal", func() []byte {
		b, err := oj.Marshal(data, c.OJ.options(0))
		if err != nil {
			panic("error: " + err.Error())
		}
		return b
	})
	limits := writeLimits
	if !(c.OJ.Sort || !c.T.multiKey()) {
		h := c.key()
		limits = []int{writeLimits[h%6], writeLimits[(h/6+3)%6]}
	} else {
		mem("oj.Writer.JSON", func() []byte {
			wr := oj.Writer{Options: *c.OJ.options(0)}
			return []byte(wr.JSON(data))
		})
	}
	for _, l := range limits {
		r := &run{entry: "oj.Write", limit: l}
		guard(r, func() {
			w := &recWriter{}
			if err := oj.Write(w, data, c.OJ.options(l)); err != nil {
				panic("error: " + err.Error())
			}
			r.chunks = w.chunks
			r.out = join(w.chunks)
		})
		runs = append(runs, r)
	}
	return runs
}

// runPrettyCase calls pretty.JSON / pretty.WriteJSON (when the configuration can be given as
// arguments) or pretty.Writer.Encode / Write.
func runPrettyCase(c *Case) []*run {
	data := c.T.data(c.Flavour)
	o := c.PR
	var runs []*run
	if o.viaArgs() {
		wd := float64(o.Width) + float64(o.MaxDepth)/10
		r := &run{entry: "pretty.JSON"}
		guard(r, func() { r.out = []byte(pretty.JSON(data, wd, o.Align, o.options(0))) })
		runs = append(runs, r)
		for _, l := range writeLimits {
			r := &run{entry: "pretty.WriteJSON", limit: l}
			guard(r, func() {
				w := &recWriter{}
				if err := pretty.WriteJSON(w, data, wd, o.Align, o.options(l)); err != nil {
					panic("error: " + err.Error())
				}
				r.chunks = w.chunks
				r.out = join(w.chunks)
			})
			runs = append(runs, r)
		}
		return runs
	}
	r := &run{entry: "pretty.Writer.Encode"}
	guard(r, func() {
		w := pretty.Writer{Options: *o.options(0), Width: o.Width, MaxDepth: o.MaxDepth, Align: o.Align}
		r.out = append([]byte{}, w.Encode(data)...)
	})
	runs = append(runs, r)
	for _, l := range writeLimits {
		r := &run{entry: "pretty.Writer.Write", limit: l}
		guard(r, func() {
			rw := &recWriter{}
			w := pretty.Writer{Options: *o.options(l), Width: o.Width, MaxDepth: o.MaxDepth, Align: o.Align}
			if err := w.Write(rw, data); err != nil {
				panic("error: " + err.Error())
			}
			r.chunks = rw.chunks
			r.out = join(rw.chunks)
		})
		runs = append(runs, r)
	}
	return runs
}
