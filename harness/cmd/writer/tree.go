package main

import (
	"bytes"
	"fmt"
	"math"
	"sort"
	"strconv"
	"strings"

	"github.com/ohler55/ojg/gen"

	"verif/harness/lib"
)

// T is a value tree as the harness generates it: nil, bool, int64, finite float64, string,
// array, object (keys in generation order, distinct also after sanitising).
type T struct {
	K    byte // n t f I F S [ {
	I    int64
	W    string // Go type of an integer leaf: "" (int64) or int int8 int16 int32 int64 uint uint8 uint16 uint32 uint64
	U    uint64 // value of an unsigned leaf (W starts with 'u')
	F    float64
	S    string
	E    []*T
	Keys []string
	Vals []*T
}

func tNull() *T           { return &T{K: 'n'} }
func tBool(b bool) *T     { if b { return &T{K: 't'} }; return &T{K: 'f'} }
func tInt(i int64) *T     { return &T{K: 'I', I: i} }
func tFlt(f float64) *T   { return &T{K: 'F', F: f} }

// tIntW is an integer leaf of the Go type w holding v (signed types) or u (unsigned types),
// truncated to the width of the type.
func tIntW(w string, v int64, u uint64) *T {
	t := &T{K: 'I', W: w}
	switch w {
	case "int8":
		t.I = int64(int8(v))
	case "int16":
		t.I = int64(int16(v))
	case "int32":
		t.I = int64(int32(v))
	case "int", "int64":
		t.I = v
	case "uint8":
		t.U = uint64(uint8(u))
	case "uint16":
		t.U = uint64(uint16(u))
	case "uint32":
		t.U = uint64(uint32(u))
	case "uint", "uint64":
		t.U = u
	default:
		t.W, t.I = "", v
	}
	return t
}

func (t *T) unsigned() bool { return len(t.W) > 0 && t.W[0] == 'u' }

// dec is the decimal text of the exact value of an integer leaf.
func (t *T) dec() string {
	if t.unsigned() {
		return strconv.FormatUint(t.U, 10)
	}
	return strconv.FormatInt(t.I, 10)
}

// goVal is the integer leaf as a value of its Go type.
func (t *T) goVal() any {
	switch t.W {
	case "int":
		return int(t.I)
	case "int8":
		return int8(t.I)
	case "int16":
		return int16(t.I)
	case "int32":
		return int32(t.I)
	case "uint":
		return uint(t.U)
	case "uint8":
		return uint8(t.U)
	case "uint16":
		return uint16(t.U)
	case "uint32":
		return uint32(t.U)
	case "uint64":
		return t.U
	}
	return t.I
}

// bigUint reports whether some leaf holds an unsigned value of 2^63 or more (no gen.Int holds it).
func (t *T) bigUint() bool {
	switch t.K {
	case 'I':
		return t.unsigned() && t.U > math.MaxInt64
	case '[':
		for _, e := range t.E {
			if e.bigUint() {
				return true
			}
		}
	case '{':
		for _, v := range t.Vals {
			if v.bigUint() {
				return true
			}
		}
	}
	return false
}
func tStr(s string) *T    { return &T{K: 'S', S: s} }
func tArr(e ...*T) *T     { return &T{K: '[', E: e} }
func tObj(kv ...any) *T {
	o := &T{K: '{'}
	for i := 0; i+1 < len(kv); i += 2 {
		o.Keys = append(o.Keys, kv[i].(string))
		o.Vals = append(o.Vals, kv[i+1].(*T))
	}
	return o
}

// clone copies a tree (the member order a writer chose is recorded per node, so a node must not
// occur twice in one tree).
func (t *T) clone() *T {
	n := *t
	n.E, n.Vals, n.Keys = nil, nil, append([]string(nil), t.Keys...)
	for _, e := range t.E {
		n.E = append(n.E, e.clone())
	}
	for _, v := range t.Vals {
		n.Vals = append(n.Vals, v.clone())
	}
	return &n
}

func floatText(f float64) string { return strconv.FormatFloat(f, 'g', -1, 64) }

// simple builds the tree from simple Go types.
func (t *T) simple() any {
	switch t.K {
	case 'n':
		return nil
	case 't':
		return true
	case 'f':
		return false
	case 'I':
		return t.goVal()
	case 'F':
		return t.F
	case 'S':
		return t.S
	case '[':
		a := make([]any, 0, len(t.E))
		for _, e := range t.E {
			a = append(a, e.simple())
		}
		return a
	default:
		m := make(map[string]any, len(t.Keys))
		for i, k := range t.Keys {
			m[k] = t.Vals[i].simple()
		}
		return m
	}
}

// genNode builds the tree from gen.* types; a nil member is a nil gen.Node.
func (t *T) genNode() gen.Node {
	switch t.K {
	case 'n':
		return nil
	case 't':
		return gen.True
	case 'f':
		return gen.False
	case 'I':
		if t.unsigned() {
			return gen.Int(int64(t.U)) // callers keep trees with bigUint() out of the gen flavour
		}
		return gen.Int(t.I)
	case 'F':
		return gen.Float(t.F)
	case 'S':
		return gen.String(t.S)
	case '[':
		a := make(gen.Array, 0, len(t.E))
		for _, e := range t.E {
			a = append(a, e.genNode())
		}
		return a
	default:
		m := make(gen.Object, len(t.Keys))
		for i, k := range t.Keys {
			m[k] = t.Vals[i].genNode()
		}
		return m
	}
}

// data gives the value handed to the writers (a nil tree is the nil interface in both flavours).
func (t *T) data(flavour string) any {
	if flavour == "gen" {
		if n := t.genNode(); n != nil {
			return n
		}
		return nil
	}
	return t.simple()
}

// canon writes the tree for the Lean driver; ord gives, per object, the member order (nil: as is).
func (t *T) canon(sb *strings.Builder, ord map[*T][]int) {
	switch t.K {
	case 'n', 't', 'f':
		sb.WriteByte(t.K)
	case 'I':
		if t.W == "" {
			fmt.Fprintf(sb, "I(%d)", t.I)
		} else {
			fmt.Fprintf(sb, "I(%s:%s)", t.dec(), t.W)
		}
	case 'F':
		fmt.Fprintf(sb, "F(%s)", lib.HexF([]byte(floatText(t.F))))
	case 'S':
		fmt.Fprintf(sb, "S(%s)", lib.HexF([]byte(t.S)))
	case '[':
		sb.WriteByte('[')
		for i, e := range t.E {
			if i > 0 {
				sb.WriteByte(',')
			}
			e.canon(sb, ord)
		}
		sb.WriteByte(']')
	case '{':
		sb.WriteByte('{')
		idx := ord[t]
		if idx == nil {
			idx = make([]int, len(t.Keys))
			for i := range idx {
				idx[i] = i
			}
		}
		for n, i := range idx {
			if n > 0 {
				sb.WriteByte(',')
			}
			fmt.Fprintf(sb, "K(%s)", lib.HexF([]byte(t.Keys[i])))
			t.Vals[i].canon(sb, ord)
		}
		sb.WriteByte('}')
	}
}

func (t *T) text(ord map[*T][]int) string {
	var sb strings.Builder
	t.canon(&sb, ord)
	return sb.String()
}

// fromCanon rebuilds a tree from its canonical text (replay files).
func fromCanon(s string) (*T, error) {
	n, err := lib.ParseCanon(s)
	if err != nil {
		return nil, err
	}
	return fromNode(n)
}

func fromNode(n *lib.Node) (*T, error) {
	switch n.Kind {
	case 'n', 't', 'f':
		return &T{K: n.Kind}, nil
	case 'I':
		if k := strings.IndexByte(n.Text, ':'); k >= 0 {
			w := n.Text[k+1:]
			if strings.HasPrefix(w, "u") {
				u, err := strconv.ParseUint(n.Text[:k], 10, 64)
				t := tIntW(w, 0, u)
				if err == nil && (t.W != w || t.U != u) {
					err = fmt.Errorf("bad integer leaf %q", n.Text)
				}
				return t, err
			}
			i, err := strconv.ParseInt(n.Text[:k], 10, 64)
			t := tIntW(w, i, 0)
			if err == nil && (t.W != w || t.I != i) {
				err = fmt.Errorf("bad integer leaf %q", n.Text)
			}
			return t, err
		}
		i, err := strconv.ParseInt(n.Text, 10, 64)
		return tInt(i), err
	case 'F':
		b, err := lib.UnhexF(n.Text)
		if err != nil {
			return nil, err
		}
		f, err := strconv.ParseFloat(string(b), 64)
		return tFlt(f), err
	case 'S':
		b, err := lib.UnhexF(n.Text)
		return tStr(string(b)), err
	case '[':
		t := &T{K: '['}
		for _, k := range n.Kids {
			e, err := fromNode(k)
			if err != nil {
				return nil, err
			}
			t.E = append(t.E, e)
		}
		return t, nil
	case '{':
		t := &T{K: '{'}
		for i, k := range n.Kids {
			e, err := fromNode(k)
			if err != nil {
				return nil, err
			}
			kb, err := lib.UnhexF(n.Keys[i])
			if err != nil {
				return nil, err
			}
			t.Keys = append(t.Keys, string(kb))
			t.Vals = append(t.Vals, e)
		}
		return t, nil
	}
	return nil, fmt.Errorf("bad node kind %c", n.Kind)
}

// sanitize replaces every byte that does not start a well-formed UTF-8 sequence by U+FFFD (the
// string -> []rune conversion of the Go language does exactly that).
func sanitize(s string) string { return string([]rune(s)) }

func (t *T) isEmptyForOmit() bool {
	switch t.K {
	case 'S':
		return len(t.S) == 0
	case '[':
		return len(t.E) == 0
	case '{':
		return len(t.Keys) == 0
	}
	return false
}

// norm is the tree the text has to denote: the input minus exactly the object members OmitNil
// (nil values) and OmitEmpty (empty strings, slices, maps) say to drop.
func (t *T) norm(omitNil, omitEmpty bool) *T {
	switch t.K {
	case '[':
		n := &T{K: '['}
		for _, e := range t.E {
			n.E = append(n.E, e.norm(omitNil, omitEmpty))
		}
		return n
	case '{':
		n := &T{K: '{'}
		for i, k := range t.Keys {
			v := t.Vals[i]
			if (omitNil && v.K == 'n') || (omitEmpty && v.isEmptyForOmit()) {
				continue
			}
			n.Keys = append(n.Keys, k)
			n.Vals = append(n.Vals, v.norm(omitNil, omitEmpty))
		}
		return n
	}
	return t
}

func (t *T) equal(o *T) bool {
	if t.K != o.K {
		return false
	}
	switch t.K {
	case 'I':
		return t.W == o.W && t.dec() == o.dec()
	case 'F':
		return math.Float64bits(t.F) == math.Float64bits(o.F)
	case 'S':
		return t.S == o.S
	case '[':
		if len(t.E) != len(o.E) {
			return false
		}
		for i := range t.E {
			if !t.E[i].equal(o.E[i]) {
				return false
			}
		}
	case '{':
		if len(t.Keys) != len(o.Keys) {
			return false
		}
		for i := range t.Keys {
			if t.Keys[i] != o.Keys[i] || !t.Vals[i].equal(o.Vals[i]) {
				return false
			}
		}
	}
	return true
}

// expectCanon renders the expected tree the way the Lean side renders `norm`: numbers as their
// literal, strings and keys sanitised, members sorted by (sanitised) key.
func (t *T) expectCanon(sb *strings.Builder) {
	switch t.K {
	case 'n', 't', 'f':
		sb.WriteByte(t.K)
	case 'I':
		fmt.Fprintf(sb, "N(%s)", lib.HexF([]byte(t.dec())))
	case 'F':
		fmt.Fprintf(sb, "N(%s)", lib.HexF([]byte(floatText(t.F))))
	case 'S':
		fmt.Fprintf(sb, "S(%s)", lib.HexF([]byte(sanitize(t.S))))
	case '[':
		sb.WriteByte('[')
		for i, e := range t.E {
			if i > 0 {
				sb.WriteByte(',')
			}
			e.expectCanon(sb)
		}
		sb.WriteByte(']')
	case '{':
		type kv struct {
			k string
			v *T
		}
		kvs := make([]kv, len(t.Keys))
		for i, k := range t.Keys {
			kvs[i] = kv{sanitize(k), t.Vals[i]}
		}
		sort.SliceStable(kvs, func(i, j int) bool { return kvs[i].k < kvs[j].k })
		sb.WriteByte('{')
		for i, e := range kvs {
			if i > 0 {
				sb.WriteByte(',')
			}
			fmt.Fprintf(sb, "K(%s)", lib.HexF([]byte(e.k)))
			e.v.expectCanon(sb)
		}
		sb.WriteByte('}')
	}
}

// denotes decides whether the specification's reading of a text (numbers as literals, members
// sorted by key) is the expected tree, numbers by value.
func denotes(exp *T, spec *lib.Node) (bool, string) {
	switch exp.K {
	case 'n', 't', 'f':
		if spec.Kind != exp.K {
			return false, fmt.Sprintf("kind: text has %c where the data has %c", spec.Kind, exp.K)
		}
	case 'I':
		if spec.Kind != 'N' {
			return false, fmt.Sprintf("kind: text has %c where the data has an integer", spec.Kind)
		}
		lit, _ := lib.UnhexF(spec.Text)
		ld, ok := lib.ParseDec(string(lit))
		id, _ := lib.ParseDec(exp.dec())
		if !ok || !ld.Equal(id) {
			return false, fmt.Sprintf("int-value: literal %q is not %s", lit, exp.dec())
		}
	case 'F':
		if spec.Kind != 'N' {
			return false, fmt.Sprintf("kind: text has %c where the data has a float", spec.Kind)
		}
		lit, _ := lib.UnhexF(spec.Text)
		f, err := strconv.ParseFloat(string(lit), 64)
		if err != nil || f != exp.F {
			return false, fmt.Sprintf("float-value: literal %q is not %v", lit, exp.F)
		}
	case 'S':
		if spec.Kind != 'S' {
			return false, fmt.Sprintf("kind: text has %c where the data has a string", spec.Kind)
		}
		if spec.Text != lib.HexF([]byte(sanitize(exp.S))) {
			return false, "string-differs: string read back differs from the (sanitised) string written"
		}
	case '[':
		if spec.Kind != '[' {
			return false, fmt.Sprintf("kind: text has %c where the data has an array", spec.Kind)
		}
		if len(spec.Kids) != len(exp.E) {
			return false, "shape: array length differs"
		}
		for i, e := range exp.E {
			if ok, why := denotes(e, spec.Kids[i]); !ok {
				return false, why
			}
		}
	case '{':
		if spec.Kind != '{' {
			return false, fmt.Sprintf("kind: text has %c where the data has an object", spec.Kind)
		}
		if len(spec.Kids) != len(exp.Keys) {
			return false, fmt.Sprintf("members: text has %d members, %d expected", len(spec.Kids), len(exp.Keys))
		}
		idx := make([]int, len(exp.Keys))
		sk := make([]string, len(exp.Keys))
		for i, k := range exp.Keys {
			idx[i] = i
			sk[i] = sanitize(k)
		}
		sort.SliceStable(idx, func(a, b int) bool { return sk[idx[a]] < sk[idx[b]] })
		for n, i := range idx {
			if spec.Keys[n] != lib.HexF([]byte(sk[i])) {
				return false, "members: member names differ"
			}
			if ok, why := denotes(exp.Vals[i], spec.Kids[n]); !ok {
				return false, why
			}
		}
	}
	return true, ""
}

func (t *T) hasContainer() bool { return t.K == '[' || t.K == '{' }

// multiKey reports whether some object has two or more members (then an unsorted writer is free to
// choose an order and two runs need not agree).
func (t *T) multiKey() bool {
	switch t.K {
	case '[':
		for _, e := range t.E {
			if e.multiKey() {
				return true
			}
		}
	case '{':
		if len(t.Keys) > 1 {
			return true
		}
		for _, v := range t.Vals {
			if v.multiKey() {
				return true
			}
		}
	}
	return false
}

// ---- order-preserving reading of a JSON text (only used to learn which member order an unsorted
// writer chose, and to look at the member order under Sort) ----

type ON struct {
	kind  byte // '[' '{' or 0 for a scalar
	keys  []string
	vals  []*ON
	elems []*ON
}

type ordParser struct {
	b []byte
	i int
}

func (p *ordParser) ws() {
	for p.i < len(p.b) && (p.b[p.i] == ' ' || p.b[p.i] == '\n' || p.b[p.i] == '\t' || p.b[p.i] == '\r') {
		p.i++
	}
}

func (p *ordParser) str() (string, bool) {
	if p.i >= len(p.b) || p.b[p.i] != '"' {
		return "", false
	}
	p.i++
	var out []byte
	for p.i < len(p.b) {
		c := p.b[p.i]
		switch {
		case c == '"':
			p.i++
			return string(out), true
		case c == '\\':
			if p.i+1 >= len(p.b) {
				return "", false
			}
			e := p.b[p.i+1]
			p.i += 2
			switch e {
			case 'n':
				out = append(out, '\n')
			case 't':
				out = append(out, '\t')
			case 'r':
				out = append(out, '\r')
			case 'b':
				out = append(out, '\b')
			case 'f':
				out = append(out, '\f')
			case 'u':
				if p.i+4 > len(p.b) {
					return "", false
				}
				u, err := strconv.ParseUint(string(p.b[p.i:p.i+4]), 16, 32)
				if err != nil {
					return "", false
				}
				p.i += 4
				out = append(out, string(rune(u))...)
			default:
				out = append(out, e)
			}
		default:
			out = append(out, c)
			p.i++
		}
	}
	return "", false
}

func (p *ordParser) value(depth int) (*ON, bool) {
	if depth > 2000 {
		return nil, false
	}
	p.ws()
	if p.i >= len(p.b) {
		return nil, false
	}
	switch p.b[p.i] {
	case '[':
		p.i++
		n := &ON{kind: '['}
		p.ws()
		if p.i < len(p.b) && p.b[p.i] == ']' {
			p.i++
			return n, true
		}
		for {
			v, ok := p.value(depth + 1)
			if !ok {
				return nil, false
			}
			n.elems = append(n.elems, v)
			p.ws()
			if p.i >= len(p.b) {
				return nil, false
			}
			if p.b[p.i] == ',' {
				p.i++
				continue
			}
			if p.b[p.i] == ']' {
				p.i++
				return n, true
			}
			return nil, false
		}
	case '{':
		p.i++
		n := &ON{kind: '{'}
		p.ws()
		if p.i < len(p.b) && p.b[p.i] == '}' {
			p.i++
			return n, true
		}
		for {
			p.ws()
			k, ok := p.str()
			if !ok {
				return nil, false
			}
			p.ws()
			if p.i >= len(p.b) || p.b[p.i] != ':' {
				return nil, false
			}
			p.i++
			v, ok := p.value(depth + 1)
			if !ok {
				return nil, false
			}
			n.keys = append(n.keys, k)
			n.vals = append(n.vals, v)
			p.ws()
			if p.i >= len(p.b) {
				return nil, false
			}
			if p.b[p.i] == ',' {
				p.i++
				continue
			}
			if p.b[p.i] == '}' {
				p.i++
				return n, true
			}
			return nil, false
		}
	case '"':
		_, ok := p.str()
		return &ON{}, ok
	default:
		st := p.i
		for p.i < len(p.b) && !bytes.ContainsRune([]byte(",]} \n\t\r"), rune(p.b[p.i])) {
			p.i++
		}
		return &ON{}, p.i > st
	}
}

func ordParse(b []byte) (*ON, bool) {
	p := &ordParser{b: b}
	n, ok := p.value(0)
	if !ok {
		return nil, false
	}
	p.ws()
	return n, p.i == len(b)
}

// recoverOrder fills ord with the member order the text shows for every object of t (members that
// were omitted follow in their own order). False if the text does not have the shape of t.
func recoverOrder(t *T, on *ON, ord map[*T][]int) bool {
	switch t.K {
	case '[':
		if on.kind != '[' || len(on.elems) != len(t.E) {
			return false
		}
		for i, e := range t.E {
			if !recoverOrder(e, on.elems[i], ord) {
				return false
			}
		}
	case '{':
		if on.kind != '{' {
			return false
		}
		byKey := make(map[string]int, len(t.Keys))
		for i, k := range t.Keys {
			byKey[sanitize(k)] = i
		}
		used := make([]bool, len(t.Keys))
		idx := make([]int, 0, len(t.Keys))
		for j, k := range on.keys {
			i, ok := byKey[k]
			if !ok || used[i] {
				return false
			}
			used[i] = true
			idx = append(idx, i)
			if !recoverOrder(t.Vals[i], on.vals[j], ord) {
				return false
			}
		}
		for i := range t.Keys {
			if !used[i] {
				idx = append(idx, i)
			}
		}
		ord[t] = idx
	}
	return true
}

// sortedOrder fills ord with the ascending key order for every object.
func sortedOrder(t *T, ord map[*T][]int) {
	switch t.K {
	case '[':
		for _, e := range t.E {
			sortedOrder(e, ord)
		}
	case '{':
		idx := make([]int, len(t.Keys))
		for i := range idx {
			idx[i] = i
		}
		sort.SliceStable(idx, func(a, b int) bool { return t.Keys[idx[a]] < t.Keys[idx[b]] })
		ord[t] = idx
		for _, v := range t.Vals {
			sortedOrder(v, ord)
		}
	}
}

// keysAscending checks, against the order-preserving reading of a text written with Sort, that the
// members of every object appear in ascending order of the INPUT keys.
func keysAscending(t *T, on *ON) bool {
	switch t.K {
	case '[':
		if on.kind != '[' || len(on.elems) != len(t.E) {
			return true // shape problems are reported by the denotation check
		}
		for i, e := range t.E {
			if !keysAscending(e, on.elems[i]) {
				return false
			}
		}
	case '{':
		if on.kind != '{' {
			return true
		}
		byKey := make(map[string]int, len(t.Keys))
		for i, k := range t.Keys {
			byKey[sanitize(k)] = i
		}
		prev := ""
		for j, k := range on.keys {
			i, ok := byKey[k]
			if !ok {
				return true
			}
			if j > 0 && !(prev < t.Keys[i]) {
				return false
			}
			prev = t.Keys[i]
			if !keysAscending(t.Vals[i], on.vals[j]) {
				return false
			}
		}
	}
	return true
}
