// Correspondence and oracle harness for the JSON writer family (C04).
//
// For every generated (tree, flavour, options) it runs the real writers — oj.JSON, oj.Marshal,
// oj.Writer.JSON, oj.Write with every WriteLimit, pretty.JSON / pretty.WriteJSON / pretty.Writer — and asks
// the Lean driver for the RFC 8259 reading of every text produced (the oracle: `Json.Spec`) and for
// the model's text and chunk list (the tie). It reports
//
//	violation:    the text is not valid JSON, does not denote the tree written (minus the members
//	              OmitNil/OmitEmpty drop), a streamed text differs from the in-memory one, or with
//	              Sort two runs differ / members are not ascending
//	disagreement: model bytes or chunks != implementation bytes or chunks
//	known:        a violation explained by an entry of known_findings.json
package main

import (
	"bytes"
	"encoding/json"
	"flag"
	"fmt"
	"hash/fnv"
	"os"
	"strconv"
	"strings"
	"sync"
	"sync/atomic"
	"unicode/utf8"

	"github.com/ohler55/ojg"

	"verif/harness/lib"
)

var (
	prop    = flag.String("prop", "C04", "property id")
	tier    = flag.String("tier", "quick", "quick|thorough")
	seed    = flag.Uint64("seed", 1, "PRNG seed")
	driver  = flag.String("driver", "", "path of drv_writer")
	outPath = flag.String("out", "", "report path")
	replay  = flag.String("replay", "", "replay file")
	corpus  = flag.String("corpus", "", "corpus file: <family> <flavour> <opts> <tree> per line")
	known   = flag.String("known", "", "known_findings.json")
	workers = flag.Int("workers", 16, "parallel workers")
)

var rep *lib.Report
var knownList []lib.Known

const (
	knownAlign = "C04-pretty-align-comma"
)

var writeLimits = []int{1, 2, 3, 7, 64, 1024}

// Case is one (tree, flavour, options) for one writer family, or one string / byte sequence.
type Case struct {
	Fam     string // oj | pretty | str | decode
	T       *T
	Flavour string // simple | gen
	OJ      ojOpts
	PR      prOpts
	Raw     []byte // str, decode
	HTML    bool   // str
}

func (c *Case) optsText() string {
	if c.Fam == "oj" {
		return c.OJ.String()
	}
	return c.PR.String()
}

// newCase makes the case own its tree.
func newCase(fam string, t *T, flavour string) *Case {
	if flavour == "gen" && t.bigUint() {
		flavour = "simple" // no gen.Int holds an unsigned value of 2^63 or more
	}
	return &Case{Fam: fam, T: t.clone(), Flavour: flavour}
}

func (c *Case) key() uint64 {
	h := fnv.New64a()
	fmt.Fprintf(h, "%s|%s|%s|%v|", c.Fam, c.Flavour, c.optsText(), c.HTML)
	if c.T != nil {
		h.Write([]byte(c.T.text(nil)))
	}
	h.Write(c.Raw)
	return h.Sum64()
}

func (c *Case) replayMap(entry string, limit int) map[string]any {
	m := map[string]any{"family": c.Fam, "entry": entry, "limit": limit}
	if c.T != nil {
		m["flavour"] = c.Flavour
		m["opts"] = c.optsText()
		m["tree"] = c.T.text(nil)
		if js, err := json.Marshal(c.T.simple()); err == nil && len(js) < 400 {
			m["tree_json_for_reading"] = string(js)
		}
	} else {
		m["input_hex"] = lib.HexF(c.Raw)
		m["html"] = c.HTML
	}
	return m
}

func main() {
	flag.Parse()
	rep = lib.NewReport(*prop, *tier, *seed)
	knownList = lib.LoadKnown(*known, *prop)
	if *replay != "" {
		runReplay()
		return
	}
	full := *tier == "thorough"
	cases := make(chan []*Case, 64)
	var wg sync.WaitGroup
	var fatal atomic.Value
	for w := 0; w < *workers; w++ {
		wg.Add(1)
		go func() {
			defer wg.Done()
			d, err := lib.StartDriver(*driver)
			if err != nil {
				fatal.Store(err.Error())
				for range cases {
				}
				return
			}
			defer d.Close()
			for batch := range cases {
				if err := processBatch(d, batch); err != nil {
					fatal.Store(err.Error())
				}
			}
		}()
	}
	var cur []*Case
	weight := 0
	seen := map[uint64]struct{}{}
	emit := func(c *Case, stream string) {
		k := c.key()
		if _, dup := seen[k]; dup {
			rep.Count("stream.duplicates_skipped", 1)
			return
		}
		seen[k] = struct{}{}
		rep.Count("stream."+stream, 1)
		cur = append(cur, c)
		weight += 1
		if c.T != nil {
			weight += 8
		}
		if weight >= 256 {
			cases <- cur
			cur, weight = nil, 0
		}
	}
	on := func(name string) bool {
		sel := os.Getenv("VERIF_STREAMS")
		return sel == "" || strings.Contains(","+sel+",", ","+name+",")
	}
	rng := lib.NewRng(*seed)

	// 1. corpus
	if *corpus != "" {
		if data, err := os.ReadFile(*corpus); err == nil {
			for _, line := range strings.Split(string(data), "\n") {
				f := strings.Fields(line)
				if len(f) != 4 || strings.HasPrefix(line, "#") {
					continue
				}
				if c, err := caseFromText(f[0], f[1], f[2], f[3]); err == nil {
					emit(c, "corpus")
				}
			}
		}
	}
	// 2. strings through AppendJSONString: every byte, every pair over the class representatives,
	// every pool string, random strings
	if on("str") {
		for _, html := range []bool{false, true} {
			for b := 0; b < 256; b++ {
				emit(&Case{Fam: "str", Raw: []byte{byte(b)}, HTML: html}, "str_exhaustive_1")
			}
			for _, a := range strAlpha {
				for _, b := range strAlpha {
					emit(&Case{Fam: "str", Raw: []byte{a, b}, HTML: html}, "str_exhaustive_2")
					if full {
						for _, c := range strAlpha {
							emit(&Case{Fam: "str", Raw: []byte{a, b, c}, HTML: html}, "str_exhaustive_3")
						}
					}
				}
			}
			for _, s := range strPool {
				emit(&Case{Fam: "str", Raw: []byte(s), HTML: html}, "str_pool")
			}
		}
		rep.Exhaustive = append(rep.Exhaustive, "AppendJSONString: every 1-byte string, every 2-byte string (thorough: 3-byte) over "+
			fmt.Sprintf("%d class representatives, html-safe on and off", len(strAlpha)))
		g := &treeGen{r: rng.Fork(1)}
		n := 4000
		if full {
			n = 60000
		}
		for i := 0; i < n; i++ {
			emit(&Case{Fam: "str", Raw: []byte(g.str() + g.str()), HTML: g.r.Bool()}, "str_random")
		}
	}
	// 3. utf8.DecodeRuneInString against the model's decoder
	if on("decode") {
		emit(&Case{Fam: "decode", Raw: []byte{}}, "decode")
		for a := 0; a < 256; a++ {
			emit(&Case{Fam: "decode", Raw: []byte{byte(a)}}, "decode")
			for _, b := range contAlpha(full) {
				emit(&Case{Fam: "decode", Raw: []byte{byte(a), b}}, "decode")
				if a >= 0xe0 {
					for _, c := range contAlpha(false) {
						emit(&Case{Fam: "decode", Raw: []byte{byte(a), b, c}}, "decode")
						if a >= 0xf0 && (full || b&0x0f == 0 || b&0x0f == 0x0f) {
							for _, d := range contAlpha(false) {
								emit(&Case{Fam: "decode", Raw: []byte{byte(a), b, c, d}}, "decode")
							}
						}
					}
				}
			}
		}
		rep.Exhaustive = append(rep.Exhaustive, "utf8 decoding: every first byte x second byte over the range boundaries (thorough: all 256) x third/fourth byte over the range boundaries")
	}
	// 4. boundary families x option lattice
	if on("boundary") {
		bt := boundaryTrees(full)
		nOJ, nPR := 10, 8
		if full {
			nOJ, nPR = len(allOJ), 64
		}
		for i, t := range bt {
			fl := "simple"
			if i%3 == 2 {
				fl = "gen"
			}
			for j := 0; j < nOJ; j++ {
				c := newCase("oj", t, fl)
				c.OJ = allOJ[(i*37+j*53)%len(allOJ)]
				emit(c, "boundary_oj")
			}
			for j := 0; j < nPR; j++ {
				c := newCase("pretty", t, fl)
				c.PR = allPR[(i*101+j*211)%len(allPR)]
				emit(c, "boundary_pretty")
			}
		}
	}
	// 5. seeded random trees and row tables
	if on("rand") {
		g := &treeGen{r: rng.Fork(2)}
		n := 9000
		if full {
			n = 150000
		}
		for i := 0; i < n; i++ {
			var t *T
			stream := "random"
			switch {
			case i%5 == 4:
				t = g.rows()
				stream = "random_rows"
			default:
				budget := 4 + g.r.Intn(30)
				if g.r.Intn(20) == 0 {
					budget = 150
				}
				t = g.tree(1+g.r.Intn(6), &budget)
			}
			fl := lib.Pick(g.r, []string{"simple", "simple", "gen"})
			for j := 0; j < 3; j++ {
				c := newCase("oj", t, fl)
				c.OJ = lib.Pick(g.r, allOJ)
				emit(c, stream+"_oj")
			}
			for j := 0; j < 3; j++ {
				o := lib.Pick(g.r, allPR)
				if stream == "random_rows" && j < 2 {
					o.Align = true
				}
				c := newCase("pretty", t, fl)
				c.PR = o
				emit(c, stream+"_pretty")
			}
		}
	}
	if len(cur) > 0 {
		cases <- cur
	}
	close(cases)
	wg.Wait()
	if e := fatal.Load(); e != nil {
		fmt.Fprintln(os.Stderr, "harness failure:", e)
		os.Exit(3)
	}
	rep.Rule = "cases: corpus; AppendJSONString on every 1- and 2-byte string over class representatives, the string pool and random strings, html-safe on/off; " +
		"utf8 decoding boxes; boundary trees (every pool string as value and key, int64/float shapes, every Go integer type (int8…int64, uint8…uint64, int, uint) at and around its boundaries incl. 2^63-1, 2^63, 2^64-1, nesting past the indentation strings, omitted first/middle/last members, rows with missing columns, width boundaries) x option lattice; " +
		"seeded random trees and row tables x random options; every tree as simple and gen values; every oj case through JSON, Marshal, Writer.JSON and Write with WriteLimit 1,2,3,7,64,1024 " +
		"(unsorted objects with 2+ members: per run, under the member order that run chose); duplicates dropped by 64-bit hash; distinct_nontrivial counts distinct cases whose tree has a container"
	if err := rep.Write(*outPath); err != nil {
		fmt.Fprintln(os.Stderr, err)
		os.Exit(3)
	}
}

var strAlpha = []byte{0x00, 0x08, 0x09, 0x0a, 0x0c, 0x0d, 0x1f, ' ', '"', '&', '/', '<', '>', 'a', '\\', 'u', 0x7f,
	0x80, 0xa8, 0xa9, 0xbd, 0xbf, 0xc2, 0xe0, 0xe2, 0xed, 0xef, 0xf0, 0xf4, 0xff}

func contAlpha(full bool) []byte {
	if full {
		b := make([]byte, 256)
		for i := range b {
			b[i] = byte(i)
		}
		return b
	}
	return []byte{0x00, 0x41, 0x7f, 0x80, 0x81, 0x8f, 0x90, 0x9f, 0xa0, 0xa8, 0xa9, 0xbd, 0xbe, 0xbf, 0xc0, 0xc2, 0xe0, 0xff}
}

func caseFromText(fam, flavour, opts, tree string) (*Case, error) {
	t, err := fromCanon(tree)
	if err != nil {
		return nil, err
	}
	if flavour == "gen" && t.bigUint() {
		return nil, fmt.Errorf("an unsigned value of 2^63 or more has no gen form")
	}
	c := &Case{Fam: fam, T: t, Flavour: flavour}
	switch fam {
	case "oj":
		c.OJ, err = parseOJ(opts)
	case "pretty":
		c.PR, err = parsePR(opts)
	default:
		err = fmt.Errorf("family %q", fam)
	}
	return c, err
}

// ---- one batch: run the implementation, ask the driver, judge ----

type run struct {
	entry  string
	limit  int
	out    []byte
	chunks [][]byte
	pan    string
	ord    map[*T][]int
	spec   int // request index of the specification's reading of out
	model  int // request index of the model answer
	mslot  int // which field of the model answer belongs to this run (0 = memory text, 1.. = chunk lists)
}

type item struct {
	c    *Case
	runs []*run
	norm int
	misc int
}

func processBatch(d *lib.Driver, batch []*Case) error {
	var reqs []string
	add := func(r string) int {
		reqs = append(reqs, r)
		return len(reqs) - 1
	}
	items := make([]*item, 0, len(batch))
	for _, c := range batch {
		it := &item{c: c, norm: -1, misc: -1}
		switch c.Fam {
		case "str":
			h := "0"
			if c.HTML {
				h = "1"
			}
			it.misc = add("str\t" + h + "\t" + lib.HexF(c.Raw))
		case "decode":
			it.misc = add("decode\t" + lib.HexF(c.Raw))
		case "oj":
			it.runs = runOJCase(c)
			planRequests(it, add)
			it.norm = add("norm\t" + c.OJ.String() + "\t" + c.T.text(nil))
		case "pretty":
			it.runs = runPrettyCase(c)
			planRequests(it, add)
			it.norm = add("normp\t" + c.PR.String() + "\t" + c.T.text(nil))
		}
		items = append(items, it)
	}
	ans, err := d.Ask(reqs)
	if err != nil {
		return err
	}
	for _, it := range items {
		judge(d, it, ans)
	}
	return nil
}

// planRequests adds one specification request per distinct text and the model requests.
func planRequests(it *item, add func(string) int) {
	c := it.c
	specOf := map[string]int{}
	for _, r := range it.runs {
		if r.pan != "" {
			r.spec, r.model = -1, -1
			continue
		}
		k := string(r.out)
		if i, ok := specOf[k]; ok {
			r.spec = i
		} else {
			r.spec = add("spec\t" + lib.HexF(r.out))
			specOf[k] = r.spec
		}
	}
	deterministic := c.Fam == "pretty" || c.OJ.Sort || !c.T.multiKey()
	if deterministic {
		ord := map[*T][]int{}
		if c.Fam == "pretty" || c.OJ.Sort {
			sortedOrder(c.T, ord)
		}
		var lims []string
		slot := map[int]int{}
		for _, r := range it.runs {
			if r.limit > 0 {
				if _, ok := slot[r.limit]; !ok {
					lims = append(lims, strconv.Itoa(r.limit))
					slot[r.limit] = len(lims)
				}
			}
		}
		ls := "-"
		if len(lims) > 0 {
			ls = strings.Join(lims, ",")
		}
		m := add(c.Fam + "\t" + c.optsText() + "\t" + ls + "\t" + c.T.text(ord))
		for _, r := range it.runs {
			if r.pan != "" {
				continue
			}
			r.ord, r.model, r.mslot = ord, m, slot[r.limit]
		}
		return
	}
	// the writer chose an order per run: learn it from the text, hand it to the model
	for _, r := range it.runs {
		if r.pan != "" {
			continue
		}
		ord := map[*T][]int{}
		if on, ok := ordParse(r.out); !ok || !recoverOrder(c.T, on, ord) {
			ord = map[*T][]int{} // the denotation check reports it; the model is asked in the given order
		}
		r.ord = ord
		ls := "-"
		r.mslot = 0
		if r.limit > 0 {
			ls = strconv.Itoa(r.limit)
			r.mslot = 1
		}
		r.model = add(c.Fam + "\t" + c.optsText() + "\t" + ls + "\t" + c.T.text(ord))
	}
}

func finding(kind, class, what string, c *Case, r *run, extra map[string]any) {
	entry, limit := "", 0
	if r != nil {
		entry, limit = r.entry, r.limit
	}
	m := c.replayMap(entry, limit)
	if r != nil {
		m["impl_text"] = fmt.Sprintf("%q", string(trunc(r.out)))
		if r.pan != "" {
			m["panic"] = r.pan
		}
	}
	for k, v := range extra {
		m[k] = v
	}
	rep.Add(lib.Finding{Kind: kind, Class: class, What: what, Replay: m})
}

func knownFinding(id, class, what string, c *Case, r *run, extra map[string]any) {
	m := c.replayMap(r.entry, r.limit)
	m["impl_text"] = fmt.Sprintf("%q", string(trunc(r.out)))
	for k, v := range extra {
		m[k] = v
	}
	rep.Add(lib.Finding{Kind: "known", Class: class, What: what, Replay: m, KnownID: id})
}

func trunc(in []byte) []byte {
	if len(in) > 300 {
		return append(append([]byte{}, in[:160]...), append([]byte("…"), in[len(in)-120:]...)...)
	}
	return in
}

func code(why string) string {
	if i := strings.Index(why, ": "); i > 0 {
		return why[:i]
	}
	return why
}

var caseCounter int64

func judge(d *lib.Driver, it *item, ans []string) {
	c := it.c
	idx := atomic.AddInt64(&caseCounter, 1)
	switch c.Fam {
	case "str":
		judgeStr(c, ans[it.misc])
		return
	case "decode":
		judgeDecode(c, ans[it.misc])
		return
	}
	nontrivial := int64(0)
	if c.T.hasContainer() {
		nontrivial = 1
	}
	rep.AddEval(1, nontrivial)
	rep.Count("runs."+c.Fam, int64(len(it.runs)))
	rep.Count("flavour."+c.Flavour, 1)
	var omitNil, omitEmpty, sorted bool
	if c.Fam == "oj" {
		omitNil, omitEmpty, sorted = c.OJ.OmitNil, c.OJ.OmitEmpty, c.OJ.Sort
	} else {
		omitNil, omitEmpty, sorted = c.PR.OmitNil, c.PR.OmitEmpty, true
	}
	exp := c.T.norm(omitNil, omitEmpty)
	if idx%4001 == 1 && len(it.runs) > 0 {
		rep.Sample(map[string]any{"family": c.Fam, "opts": c.optsText(), "flavour": c.Flavour, "tree": string(trunc([]byte(c.T.text(nil)))),
			"impl": fmt.Sprintf("%q", string(trunc(it.runs[0].out))), "spec": string(trunc([]byte(ansOr(ans, it.runs[0].spec))))})
	}
	// the Lean `norm` against the harness's expected tree (ties the statement of C04_oj to the oracle)
	// (for pretty: `norm` under the oj options with the same meaning, the statement of C04_pretty_noalign)
	if it.norm >= 0 {
		var sb strings.Builder
		exp.expectCanon(&sb)
		if ans[it.norm] != sb.String() {
			finding("disagreement", "norm", "Lean norm and the harness's expected tree differ", c, nil,
				map[string]any{"lean_norm": ans[it.norm], "harness_expected": sb.String()})
		}
	}
	deterministic := c.Fam == "pretty" || c.OJ.Sort || !c.T.multiKey()
	var memText []byte
	haveMem := false
	judged := map[string]bool{}
	for _, r := range it.runs {
		if r.pan != "" {
			finding("violation", "panic:"+r.entry, "writer panicked or returned an error: "+r.pan, c, r, nil)
			continue
		}
		rep.Count("texts", 1)
		// oracle: valid JSON denoting the tree (once per distinct text)
		if !judged[string(r.out)] {
			judged[string(r.out)] = true
			judgeText(d, c, r, exp, ans[r.spec], omitNil, omitEmpty)
		}
		// determinism and stream == memory
		if deterministic {
			if !haveMem {
				memText, haveMem = r.out, true
			} else if !bytes.Equal(memText, r.out) {
				cls, what := "entry-differs:"+r.entry, "two in-memory entry points give different texts for the same data and options"
				if r.limit > 0 {
					cls, what = "stream-differs:"+r.entry, fmt.Sprintf("the text streamed with WriteLimit %d differs from the in-memory text", r.limit)
				} else if sorted {
					cls, what = "sort-nondeterministic:"+r.entry, "two runs with Sort give different texts"
				}
				finding("violation", cls, what, c, r, map[string]any{"memory_text": fmt.Sprintf("%q", string(trunc(memText)))})
			}
		}
		// (pretty does not read Options.Sort; its aligned rows follow the order of the ENCODED keys)
		if sorted && c.Fam == "oj" {
			if on, ok := ordParse(r.out); ok && !keysAscending(c.T, on) {
				finding("violation", "sort-order:"+r.entry, "with Sort the members of an object are not in ascending key order", c, r, nil)
			}
		}
		// tie: model bytes and chunks
		f := strings.Split(ans[r.model], " ")
		if ans[r.model] == "bad-op" || r.mslot >= len(f) {
			finding("disagreement", "model-bad-op", "the driver rejected the model request", c, r, map[string]any{"answer": ans[r.model]})
			continue
		}
		if r.limit == 0 {
			if f[0] != lib.HexF(r.out) {
				mb, _ := lib.UnhexF(f[0])
				finding("disagreement", "model-bytes:"+r.entry, "model text and implementation text differ", c, r,
					map[string]any{"model_text": fmt.Sprintf("%q", string(trunc(mb))), "order": c.T.text(r.ord)})
			}
		} else {
			if f[r.mslot] != chunksText(r.chunks) {
				finding("disagreement", "model-chunks:"+r.entry, "model chunk list and the chunks handed to the io.Writer differ", c, r,
					map[string]any{"model_chunks": truncS(f[r.mslot]), "impl_chunks": truncS(chunksText(r.chunks)), "order": c.T.text(r.ord)})
			}
			// the model's own memory text under the same order must be the joined chunks (C04_stream)
			if f[0] != lib.HexF(r.out) {
				mb, _ := lib.UnhexF(f[0])
				finding("disagreement", "model-bytes:"+r.entry, "model in-memory text and the joined implementation chunks differ", c, r,
					map[string]any{"model_text": fmt.Sprintf("%q", string(trunc(mb))), "order": c.T.text(r.ord)})
			}
		}
	}
}

func truncS(s string) string {
	if len(s) > 400 {
		return s[:400] + "…"
	}
	return s
}

func ansOr(ans []string, i int) string {
	if i < 0 || i >= len(ans) {
		return ""
	}
	return ans[i]
}

func chunksText(cs [][]byte) string {
	if len(cs) == 0 {
		return "-"
	}
	parts := make([]string, len(cs))
	for i, c := range cs {
		parts[i] = lib.HexF(c)
	}
	return strings.Join(parts, ",")
}

// readSpec turns the driver's `spec` answer into a tree; nil if the text is not one JSON document.
func readSpec(a string) *lib.Node {
	if !strings.HasPrefix(a, "one ") {
		return nil
	}
	n, err := lib.ParseCanon(a[4:])
	if err != nil {
		return nil
	}
	return n
}

// judgeText is the oracle for one text.
func judgeText(d *lib.Driver, c *Case, r *run, exp *T, specAns string, omitNil, omitEmpty bool) {
	node := readSpec(specAns)
	if node != nil {
		ok, why := denotes(exp, node)
		if ok {
			return
		}
		finding("violation", "denote:"+r.entry+":"+code(why), "the text is valid JSON but does not denote the data written: "+why, c, r, map[string]any{"spec": truncS(specAns)})
		return
	}
	// not a JSON text
	if c.Fam == "pretty" && c.PR.Align && lib.HasKnown(knownList, knownAlign) {
		if fixed, n := stripAlignCommas(r.out); n > 0 {
			if a2, err := d.Ask1("spec\t" + lib.HexF(fixed)); err == nil {
				if node2 := readSpec(a2); node2 != nil {
					if ok, _ := denotes(exp, node2); ok {
						knownFinding(knownAlign, "invalid:"+r.entry, "aligned row without its last column ends in a comma", c, r, nil)
						return
					}
				}
			}
		}
	}
	finding("violation", "invalid:"+r.entry, "the text is not valid JSON ("+specAns+")", c, r, nil)
}

// stripAlignCommas removes every comma that is followed, outside a string, by one or more spaces
// and a closing brace — the one shape of the known alignment defect. It returns the number removed.
func stripAlignCommas(b []byte) ([]byte, int) {
	out := make([]byte, 0, len(b))
	n := 0
	inStr := false
	for i := 0; i < len(b); i++ {
		ch := b[i]
		if inStr {
			out = append(out, ch)
			if ch == '\\' && i+1 < len(b) {
				i++
				out = append(out, b[i])
			} else if ch == '"' {
				inStr = false
			}
			continue
		}
		if ch == '"' {
			inStr = true
		}
		if ch == ',' {
			j := i + 1
			for j < len(b) && b[j] == ' ' {
				j++
			}
			if j > i+1 && j < len(b) && b[j] == '}' {
				n++
				continue
			}
		}
		out = append(out, ch)
	}
	return out, n
}

func judgeStr(c *Case, ans string) {
	rep.AddEval(1, 0)
	rep.Count("str_cases", 1)
	f := strings.SplitN(ans, " ", 2)
	impl := ojg.AppendJSONString(nil, string(c.Raw), c.HTML)
	r := &run{entry: "AppendJSONString", out: impl}
	if len(f) != 2 {
		finding("disagreement", "model-bad-op", "the driver rejected the request", c, r, map[string]any{"answer": ans})
		return
	}
	if f[0] != lib.HexF(impl) {
		mb, _ := lib.UnhexF(f[0])
		finding("disagreement", "model-bytes:AppendJSONString", "model text and implementation text differ", c, r, map[string]any{"model_text": fmt.Sprintf("%q", mb)})
		// judge the implementation's own text below only if the model's differs: needs another reading;
		// the tree cases cover it (every pool string is also written as a value)
		return
	}
	want := "one S(" + lib.HexF([]byte(sanitize(string(c.Raw)))) + ")"
	if f[1] != want {
		finding("violation", "string:AppendJSONString", "the escaped string does not read back as the (sanitised) string", c, r, map[string]any{"spec": f[1], "want": want})
	}
}

func judgeDecode(c *Case, ans string) {
	rep.AddEval(1, 0)
	rep.Count("decode_cases", 1)
	rn, w := utf8.DecodeRuneInString(string(c.Raw))
	want := fmt.Sprintf("%d %d", rn, w)
	if ans != want {
		finding("disagreement", "model-utf8", "the model's UTF-8 decoder differs from utf8.DecodeRuneInString", c, nil, map[string]any{"model": ans, "go": want})
	}
}

func runReplay() {
	data, err := os.ReadFile(*replay)
	if err != nil {
		fmt.Fprintln(os.Stderr, err)
		os.Exit(3)
	}
	var r struct {
		Replay map[string]any `json:"replay"`
	}
	if err := json.Unmarshal(data, &r); err != nil || r.Replay == nil {
		fmt.Fprintln(os.Stderr, "bad replay file")
		os.Exit(3)
	}
	s := func(k string) string { v, _ := r.Replay[k].(string); return v }
	var c *Case
	switch s("family") {
	case "str", "decode":
		raw, err := lib.UnhexF(s("input_hex"))
		if err != nil {
			fmt.Fprintln(os.Stderr, "bad replay input:", err)
			os.Exit(3)
		}
		h, _ := r.Replay["html"].(bool)
		c = &Case{Fam: s("family"), Raw: raw, HTML: h}
	default:
		c, err = caseFromText(s("family"), s("flavour"), s("opts"), s("tree"))
		if err != nil {
			fmt.Fprintln(os.Stderr, "bad replay case:", err)
			os.Exit(3)
		}
	}
	d, err := lib.StartDriver(*driver)
	if err != nil {
		fmt.Fprintln(os.Stderr, err)
		os.Exit(3)
	}
	defer d.Close()
	if err := processBatch(d, []*Case{c}); err != nil {
		fmt.Fprintln(os.Stderr, err)
		os.Exit(3)
	}
	rep.Rule = "replay of one case"
	_ = rep.Write(*outPath)
	for _, f := range rep.Findings {
		fmt.Printf("%s %s: %s\n", f.Kind, f.Class, f.What)
	}
}
