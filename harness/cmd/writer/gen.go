package main

import (
	"math"
	"strings"

	"verif/harness/lib"
)

// strings every writer has to get right: control bytes, quote, backslash, HTML characters, U+2028/9,
// ill-formed UTF-8 of every kind, well-formed 2/3/4-byte sequences, U+FFFD itself, DEL.
var strPool = []string{
	"", "a", "abc", "key", "x y", "0", "-1", "true", "null",
	"\x00", "\x01\x02", "\b\t\n\f\r", "\x1f", "\x7f", "tab\there", "line\nbreak",
	"\"", "\\", "a\"b\\c", "/", "\\u0041", "\\\"",
	"<", ">", "&", "<script>&amp;</script>", "a<b>c&d",
	" ", " ", "x y z", "‧", "‪",
	"\x80", "\xbf", "\xc0\x80", "\xc1\xbf", "\xc2", "\xc2\x41", "\xe0\x80\x80", "\xe0\x9f\xbf", "\xe2\x80", "\xe2\x80\x41",
	"\xed\xa0\x80", "\xed\xbf\xbf", "\xf0\x80\x80\x80", "\xf0\x8f\xbf\xbf", "\xf4\x90\x80\x80", "\xf5\x80\x80\x80", "\xf8", "\xff", "\xfe\xff",
	"\xf0\x9f\x98", "a\xffb", "\xe2\x80\xa8\xff", "\xff\xe2\x80\xa8", "\xe2\x28\xa8",
	"\u00e9", "\u00fc", "\u07ff", "\u0800", "\u65e5\u672c\u8a9e", "\uffff", "\ufffd", "\ufffc", "\ue000", "\ud7ff", "\U0001f600", "\U00010000", "\U0010ffff",
	"long-ish string value with several words in it", strings.Repeat("w", 70), strings.Repeat("é", 40),
}

var keyPool = []string{
	"a", "b", "c", "d", "e", "k", "x", "y", "z", "id", "name", "key", "longer key", "medium", "short",
	"", " ", "A", "B", "aa", "ab", "b\"", "q\\", "<k>", "&", "\n", "\x00", "\x7f", "\u2028", "\u2029",
	"\xff", "\xfe", "\xc2", "\xe2\x80", "é", "日本", "😀", "�", "\xf0\x9f\x98\x80",
	"0", "1", "10", "2", "true", "null",
}

var intPool = []int64{0, 1, -1, 7, 10, -10, 42, 99, 100, 12345, -99999, 1 << 31, -(1 << 31), 1<<53 + 1,
	math.MaxInt64, math.MinInt64, math.MaxInt64 - 1, math.MinInt64 + 1, 1000000000000000000, -1000000000000000000}

var floatPool = []float64{0, math.Copysign(0, -1), 1, -1, 1.5, -2.25, 0.1, 0.3, 1e20, 1e21, -1e21, 1e22, 123456789.125,
	1e-4, 1e-5, 1e-6, 1e-7, 12345678.9, 1e6, 1e5, 100000.5, 999999.9999, 5e-324, math.MaxFloat64, -math.MaxFloat64,
	math.SmallestNonzeroFloat64 * 3, 2.2250738585072014e-308, 1.7976931348623157e308, 3.141592653589793, 1e100, 1e-100,
	4.35, 0.000001234, 9007199254740993, float64(1 << 62), 1.0e+15, 1.0e+16, 123e-20}

// integer leaves of every Go width and signedness (the writers have one arm per type)
var intTypes = []string{"int", "int8", "int16", "int32", "int64", "uint", "uint8", "uint16", "uint32", "uint64"}

// values at and around every boundary: 2^7, 2^8, 2^15, 2^16, 2^31, 2^32, 2^63, 2^64 (as bit patterns;
// tIntW truncates to the width of the type, so each type sees its own minimum, maximum and wrap-around)
var uintPool = []uint64{0, 1, 9, 10, 127, 128, 129, 255, 256, 32767, 32768, 65535, 65536, 1<<31 - 1, 1 << 31, 1<<31 + 1, 1<<32 - 1, 1 << 32,
	1<<53 + 1, 1<<63 - 1, 1 << 63, 1<<63 + 1, 1<<64 - 1, 1<<64 - 2, 10000000000000000000, 9999999999999999999, 18446744073709551615, 12345678901234567890,
	1<<64 - 128, 1<<64 - 129, 1<<64 - 32768, 1<<64 - 32769, 1<<64 - 1<<31, 1<<64 - 1<<31 - 1}

// typedInts gives every (type, boundary value) leaf.
func typedInts() []*T {
	var out []*T
	seen := map[string]bool{}
	for _, w := range intTypes {
		for _, u := range uintPool {
			t := tIntW(w, int64(u), u)
			if k := w + ":" + t.dec(); !seen[k] {
				seen[k] = true
				out = append(out, t)
			}
		}
	}
	return out
}

type treeGen struct {
	r *lib.Rng
}

func (g *treeGen) str() string {
	switch g.r.Intn(10) {
	case 0, 1, 2, 3, 4, 5:
		return lib.Pick(g.r, strPool)
	case 6:
		return lib.Pick(g.r, strPool) + lib.Pick(g.r, strPool)
	case 7:
		// random bytes, biased to the interesting ranges
		n := g.r.Intn(8)
		b := make([]byte, n)
		for i := range b {
			switch g.r.Intn(5) {
			case 0:
				b[i] = byte(g.r.Intn(0x20))
			case 1:
				b[i] = byte(0x80 + g.r.Intn(0x80))
			case 2:
				b[i] = lib.Pick(g.r, []byte{'"', '\\', '<', '>', '&', '/', 0x7f, 0xe2, 0x80, 0xa8, 0xa9, 0xef, 0xbf, 0xbd})
			default:
				b[i] = byte(0x20 + g.r.Intn(0x5f))
			}
		}
		return string(b)
	case 8:
		return string(rune(g.r.Intn(0x11000)))
	default:
		return strings.Repeat(lib.Pick(g.r, []string{"a", "é", "\"", "\x01", "<"}), g.r.Intn(30))
	}
}

func (g *treeGen) key(used map[string]bool) (string, bool) {
	for try := 0; try < 8; try++ {
		var k string
		if g.r.Intn(4) == 0 {
			k = g.str()
		} else {
			k = lib.Pick(g.r, keyPool)
		}
		if s := sanitize(k); !used[s] {
			used[s] = true
			return k, true
		}
	}
	return "", false
}

func (g *treeGen) int64v() int64 {
	if g.r.Intn(3) == 0 {
		return lib.Pick(g.r, intPool)
	}
	v := int64(g.r.Next()) >> uint(g.r.Intn(64))
	return v
}

func (g *treeGen) float() float64 {
	if g.r.Intn(2) == 0 {
		return lib.Pick(g.r, floatPool)
	}
	for {
		var f float64
		switch g.r.Intn(3) {
		case 0:
			f = math.Float64frombits(g.r.Next())
		case 1:
			f = float64(int64(g.r.Next())>>uint(g.r.Intn(64))) / float64(int64(1)<<uint(g.r.Intn(40)))
		default:
			f = float64(g.r.Intn(2000000)-1000000) * math.Pow(10, float64(g.r.Intn(80)-40))
		}
		if !math.IsNaN(f) && !math.IsInf(f, 0) {
			return f
		}
	}
}

func (g *treeGen) scalar() *T {
	switch g.r.Intn(12) {
	case 0, 1:
		return tNull()
	case 2:
		return tBool(true)
	case 3:
		return tBool(false)
	case 4, 5:
		return tInt(g.int64v())
	case 6:
		w := lib.Pick(g.r, intTypes)
		if g.r.Intn(2) == 0 {
			u := lib.Pick(g.r, uintPool)
			return tIntW(w, int64(u), u)
		}
		u := g.r.Next() >> uint(g.r.Intn(64))
		if g.r.Bool() {
			u = -u
		}
		return tIntW(w, int64(u), u)
	case 7, 8:
		return tFlt(g.float())
	default:
		return tStr(g.str())
	}
}

// tree generates a value; budget bounds the number of nodes.
func (g *treeGen) tree(depth int, budget *int) *T {
	*budget--
	if depth <= 0 || *budget <= 0 || g.r.Intn(10) < 3 {
		return g.scalar()
	}
	n := g.r.Intn(5)
	if g.r.Intn(6) == 0 {
		n = 0
	}
	if g.r.Bool() {
		a := &T{K: '['}
		for i := 0; i < n; i++ {
			a.E = append(a.E, g.tree(depth-1, budget))
		}
		return a
	}
	o := &T{K: '{'}
	used := map[string]bool{}
	for i := 0; i < n; i++ {
		k, ok := g.key(used)
		if !ok {
			break
		}
		o.Keys = append(o.Keys, k)
		o.Vals = append(o.Vals, g.tree(depth-1, budget))
	}
	return o
}

// rows generates an array of rows sharing columns (what pretty's alignment looks for): maps over a
// common key set with members missing, or arrays of different lengths, cells of different widths
// and kinds, sometimes nested.
func (g *treeGen) rows() *T {
	nrows := 2 + g.r.Intn(3)
	ncols := 1 + g.r.Intn(4)
	keys := []string{"a", "b", "c", "d", "e"}[:ncols]
	if g.r.Intn(4) == 0 {
		keys = []string{"x", "longer", "é", "<", "k\""}[:ncols]
	}
	asMap := g.r.Intn(3) != 0
	cell := func(c int) *T {
		switch g.r.Intn(12) {
		case 0:
			return tNull()
		case 1:
			return tStr(lib.Pick(g.r, []string{"", "a", "abc", " ", "<", "longer text"}))
		case 2:
			return tFlt(lib.Pick(g.r, []float64{1.5, 1e21, -0.25}))
		case 3:
			return tBool(g.r.Bool())
		case 4:
			if g.r.Bool() {
				return tArr(tInt(int64(g.r.Intn(100))), tInt(int64(g.r.Intn(1000))))
			}
			return tArr()
		case 5:
			if g.r.Bool() {
				return tObj("p", tInt(int64(g.r.Intn(100))), "q", tStr("v"))
			}
			return tObj()
		case 6:
			// deeper cells: nested arrays and maps, so that sub-tables get sub-tables
			switch g.r.Intn(4) {
			case 0:
				return tArr(tArr(tInt(int64(g.r.Intn(50))), tStr("w")), tArr(tInt(7)))
			case 1:
				return tArr(tObj("p", tInt(int64(g.r.Intn(50)))), tObj("p", tInt(3), "q", tNull()))
			case 2:
				return tObj("p", tArr(tInt(int64(g.r.Intn(50))), tInt(2)), "q", tObj("r", tStr("s")))
			default:
				return tArr(tArr(tArr(tInt(int64(g.r.Intn(9))))))
			}
		default:
			return tInt(int64(g.r.Intn(3000)) - 100)
		}
	}
	top := &T{K: '['}
	for r := 0; r < nrows; r++ {
		if asMap {
			row := &T{K: '{'}
			for c, k := range keys {
				if g.r.Intn(4) == 0 {
					continue // missing column
				}
				row.Keys = append(row.Keys, k)
				row.Vals = append(row.Vals, cell(c))
			}
			top.E = append(top.E, row)
		} else {
			row := &T{K: '['}
			n := ncols
			if g.r.Intn(3) == 0 {
				n = g.r.Intn(ncols + 1)
			}
			for c := 0; c < n; c++ {
				row.E = append(row.E, cell(c))
			}
			top.E = append(top.E, row)
		}
	}
	if g.r.Intn(6) == 0 { // a row of the other kind, or a scalar row: no table
		top.E = append(top.E, lib.Pick(g.r, []*T{tArr(tInt(1)), tObj("a", tInt(1)), tInt(5)}))
	}
	switch g.r.Intn(4) {
	case 0:
		return tObj("rows", top, "n", tInt(int64(nrows)))
	case 1:
		return tArr(top, top)
	}
	return top
}

// chain builds a value nested `depth` levels deep with something at the bottom and siblings on the way.
func chain(depth int, kind string, leaf *T, sibEvery int) *T {
	t := leaf
	for d := depth; d > 0; d-- {
		useArr := kind == "arr" || (kind == "mix" && d%2 == 0)
		if useArr {
			if sibEvery > 0 && d%sibEvery == 0 {
				t = tArr(tInt(int64(d)), t, tStr("s"))
			} else {
				t = tArr(t)
			}
		} else {
			if sibEvery > 0 && d%sibEvery == 0 {
				t = tObj("a", tInt(int64(d)), "k", t, "z", tNull())
			} else {
				t = tObj("k", t)
			}
		}
	}
	return t
}

// boundaryTrees are the families the property names.
func boundaryTrees(full bool) []*T {
	var out []*T
	// every scalar
	for _, i := range intPool {
		out = append(out, tInt(i), tArr(tInt(i)), tObj("i", tInt(i)))
	}
	// every Go integer type at and around its boundaries (bare, as element, as member, in table rows)
	for i, t := range typedInts() {
		out = append(out, t)
		switch i % 3 {
		case 0:
			out = append(out, tArr(t, tInt(1)))
		case 1:
			out = append(out, tObj("u", t))
		default:
			out = append(out, tArr(tArr(t, tInt(1)), tArr(tInt(22), t)), tArr(tObj("a", t, "b", tInt(1)), tObj("a", tInt(5), "b", t)))
		}
	}
	for _, f := range floatPool {
		out = append(out, tFlt(f), tArr(tFlt(f), tFlt(-f)))
	}
	out = append(out, tNull(), tBool(true), tBool(false), tArr(), tObj(), tArr(tArr()), tArr(tObj()), tObj("a", tArr()), tObj("a", tObj()),
		tArr(tNull(), tNull()), tArr(tArr(), tObj(), tStr("")), tObj("a", tNull()), tObj("", tStr("")))
	// every string of the pool, as value and as key
	for _, s := range strPool {
		out = append(out, tStr(s), tArr(tStr(s), tStr(s)), tObj(s, tStr(s)), tObj(s, tInt(1), s+"x", tInt(2)))
	}
	// nesting past the indentation strings (tabs: 30, spaces: 128)
	depths := []int{29, 30, 31, 32, 63, 64, 65, 70}
	if full {
		depths = append(depths, 1, 2, 3, 42, 43, 44, 127, 128, 129, 130, 140)
	} else {
		depths = append(depths, 129, 140)
	}
	for _, d := range depths {
		for _, kind := range []string{"arr", "obj", "mix"} {
			out = append(out, chain(d, kind, tInt(1), 0), chain(d, kind, tArr(tInt(1), tInt(2)), 7),
				chain(d, kind, tObj("x", tStr("v"), "y", tNull()), 5), chain(d, kind, tArr(), 0), chain(d, kind, tObj(), 3))
		}
	}
	// omitted first / middle / last members, and everything omitted
	omits := []*T{tNull(), tStr(""), tArr(), tObj(), tObj("n", tNull()), tInt(0), tStr("v"), tArr(tNull()), tBool(false), tFlt(0)}
	for _, a := range omits {
		for _, b := range omits {
			out = append(out, tObj("a", a, "b", b), tArr(tObj("a", a, "b", b), a))
			if full {
				for _, c := range omits {
					out = append(out, tObj("a", a, "b", b, "c", c))
				}
			} else {
				out = append(out, tObj("a", a, "b", b, "c", tInt(1)), tObj("a", tInt(1), "b", a, "c", b), tObj("a", a, "b", tInt(1), "c", b))
			}
		}
		out = append(out, tObj("a", a), tObj("o", tObj("a", a)), tArr(a), tObj("o", tObj("p", tObj("a", a)), "z", a))
	}
	// rows with missing columns (alignment)
	cols := []string{"a", "b", "c"}
	mk := func(mask int, base int64) *T {
		row := &T{K: '{'}
		for i, k := range cols {
			if mask&(1<<i) != 0 {
				row.Keys = append(row.Keys, k)
				row.Vals = append(row.Vals, tInt(base*int64(i+1)))
			}
		}
		return row
	}
	for m1 := 0; m1 < 8; m1++ {
		for m2 := 0; m2 < 8; m2++ {
			out = append(out, tArr(mk(m1, 1), mk(m2, 100)))
			if full {
				for m3 := 0; m3 < 8; m3++ {
					out = append(out, tArr(mk(m1, 1), mk(m2, 100), mk(m3, 20)))
				}
			}
		}
		out = append(out, tArr(mk(7, 1), mk(m1, 10), mk(7, 100)), tObj("t", tArr(mk(7, 1), mk(m1, 10))))
	}
	for n1 := 0; n1 < 4; n1++ {
		for n2 := 0; n2 < 4; n2++ {
			r1, r2 := &T{K: '['}, &T{K: '['}
			for i := 0; i < n1; i++ {
				r1.E = append(r1.E, tInt(int64(i)*7))
			}
			for i := 0; i < n2; i++ {
				r2.E = append(r2.E, tStr(strings.Repeat("s", i)))
			}
			out = append(out, tArr(r1, r2), tArr(r1, r2, r1))
		}
	}
	// the suite's own example and nested / mixed tables
	out = append(out,
		tArr(tObj("x", tInt(1), "y", tInt(2)), tObj("z", tInt(3), "y", tInt(2)), tObj("x", tInt(100), "y", tInt(200), "z", tInt(300)), tObj("x", tInt(10), "z", tInt(30))),
		tArr(tObj("a", tArr(tInt(1), tInt(2)), "b", tObj("p", tInt(1))), tObj("a", tArr(tInt(100)), "b", tObj("p", tInt(22), "q", tInt(3)))),
		tArr(tObj("a", tObj("p", tInt(1), "q", tInt(2))), tObj("a", tObj("p", tInt(1)))),
		tArr(tArr(tObj("a", tInt(1), "b", tInt(2)), tInt(5)), tArr(tObj("a", tInt(1)), tInt(6))),
		tArr(tArr(tInt(1), tArr(tInt(2))), tArr(tArr(tInt(3)), tInt(4))),
		tArr(tArr(tObj("a", tInt(1))), tArr(tArr(tInt(5)))),
		tArr(tArr(tObj("a", tInt(1))), tArr(tArr(tArr(tInt(5))))), // a column with a map in one row, an array in the other
		tArr(tObj("k", tArr(tArr(tInt(1), tInt(2)))), tObj("k", tObj("p", tInt(3))), tObj("j", tInt(4))),
		tArr(tObj("a", tInt(1), "b", tStr("x")), tObj("a", tStr("long string here"), "b", tInt(2))),
	)
	// width boundaries for pretty
	for _, n := range []int{1, 8, 9, 10, 16, 17, 18, 19, 20, 36, 37, 38, 39, 40, 76, 77, 78, 79, 80, 120, 124, 125, 126, 127, 128, 129, 130} {
		out = append(out, tArr(tStr(strings.Repeat("x", n))), tObj("k", tStr(strings.Repeat("x", n))), tArr(tInt(1), tStr(strings.Repeat("x", n))),
			tArr(tArr(tStr(strings.Repeat("x", n)), tInt(1)), tArr(tStr("y"), tInt(22))))
	}
	return out
}
