package reuse

import (
	"encoding/hex"
	"fmt"
	"strings"

	"verif/harness/lib"
)

// ---- JSON inputs for the parsers ---------------------------------------------------------------

var genKeys = []string{"a", "b", "c", "x", "y", "k\\n", "é", "", "long key with spaces"}
var genStrs = []string{"", "abc", "a\\\"b", "\\u00e9\\u4e2d", "tab\\there", "x\\\\y", "ünï", "0123456789012345678901234567890123456789"}
var genNums = []string{"0", "1", "-1", "12", "-0", "123456789", "9223372036854775807", "9223372036854775808",
	"-9223372036854775808", "12345678901234567890123", "1.5", "-0.25", "1e3", "1E-2", "1.25e+10", "0.1", "3.141592653589793",
	"1.7976931348623157e308", "123456789.123456789123456789", "1e400", "0.000001", "10"}

func genJSON(r *lib.Rng, depth int) string {
	k := r.Intn(12)
	if depth <= 0 && k >= 8 {
		k = r.Intn(8)
	}
	ws := func() string {
		switch r.Intn(8) {
		case 0:
			return " "
		case 1:
			return "\n"
		case 2:
			return "\t \r\n"
		}
		return ""
	}
	switch k {
	case 0:
		return "null"
	case 1:
		return "true"
	case 2:
		return "false"
	case 3, 4:
		return lib.Pick(r, genNums)
	case 5, 6, 7:
		return `"` + lib.Pick(r, genStrs) + `"`
	case 8, 9:
		n := r.Intn(4)
		var sb strings.Builder
		sb.WriteString("[" + ws())
		for i := 0; i < n; i++ {
			if i > 0 {
				sb.WriteString("," + ws())
			}
			sb.WriteString(genJSON(r, depth-1))
			sb.WriteString(ws())
		}
		sb.WriteString("]")
		return sb.String()
	default:
		n := r.Intn(4)
		var sb strings.Builder
		sb.WriteString("{" + ws())
		for i := 0; i < n; i++ {
			if i > 0 {
				sb.WriteString("," + ws())
			}
			sb.WriteString(`"` + lib.Pick(r, genKeys) + `"` + ws() + ":" + ws())
			sb.WriteString(genJSON(r, depth-1))
			sb.WriteString(ws())
		}
		sb.WriteString("}")
		return sb.String()
	}
}

// fragments that leave the machine in the middle of something
var genPartials = []string{
	`"abc`, `"ab\`, `"ab\u00`, `"ab\u00e`, `tru`, `fals`, `nul`, `n`, `-`, `1.`, `1e`, `1e+`, `123456789012345678901234567890`,
	`0.12345678901234567890123`, `[`, `[[[`, `{`, `{"a"`, `{"a":`, `{"a":1,`, `{"a":[1,{"b":"c`, `[1,2,`, `[1 2]`, `{"a" 1}`,
	`[1,]`, `{,}`, `}`, `]`, `[}`, `{"a":1]`, `"a" "b"`, `1 2 3`, "\n\n\n  x", "[\n\n\n1,\n\"\x01\"]", `{"a":1}}`, `[1]]`,
	`truE`, `nulL`, `falsE`, `01`, `-a`, `1.a`, `1ea`, `"\q"`, `"\u00zz"`, "\xef\xbb\xbf1", "\xef\xbb\xbf", "\xef\xbbx1", "\xef",
	``, ` `, "\n", `{"a":{"b":{"c":{"d":[1,2,{"e":"f`, `[1e5,1.5,-3,"x",null,true,false,{"k":[]}] x`,
}

// GenInput returns the bytes of one parser input and a tag saying what kind it is.
func GenInput(r *lib.Rng) ([]byte, string) {
	switch k := r.Intn(20); {
	case k < 7:
		return []byte(genJSON(r, 3)), "valid"
	case k < 10:
		n := 2 + r.Intn(3)
		parts := make([]string, n)
		for i := range parts {
			parts[i] = genJSON(r, 2)
		}
		return []byte(strings.Join(parts, lib.Pick(r, []string{" ", "\n", "\n\n", "\t"}))), "multi"
	case k < 13:
		return []byte(lib.Pick(r, genPartials)), "partial"
	case k < 15:
		s := genJSON(r, 3)
		if len(s) > 1 {
			s = s[:1+r.Intn(len(s)-1)]
		}
		return []byte(s), "truncated"
	case k < 18:
		b := []byte(genJSON(r, 3))
		if len(b) == 0 {
			return b, "mutated"
		}
		i := r.Intn(len(b))
		switch r.Intn(3) {
		case 0:
			b[i] = lib.Pick(r, []byte(`{}[],:"\ x0-.eE`+"\n\x00\xff"))
		case 1:
			b = append(b[:i], b[i+1:]...)
		default:
			b = append(b[:i], append([]byte{lib.Pick(r, []byte(`{}[],:"\ x0-.e`+"\n"))}, b[i:]...)...)
		}
		return b, "mutated"
	case k < 19:
		// valid document followed by a fragment, or a fragment after newlines (dirty line/column)
		return []byte(genJSON(r, 2) + lib.Pick(r, []string{"\n", " ", "\n\n"}) + lib.Pick(r, genPartials)), "valid+partial"
	default:
		// long: crosses the 4096-byte read buffer
		var sb strings.Builder
		sb.WriteString("[")
		n := 300 + r.Intn(600)
		for i := 0; i < n; i++ {
			if i > 0 {
				sb.WriteString(",")
			}
			if i%7 == 0 {
				sb.WriteString("\n")
			}
			sb.WriteString(genJSON(r, 1))
		}
		if r.Intn(3) > 0 {
			sb.WriteString("]")
		}
		return []byte(sb.String()), "long"
	}
}

func genChunks(r *lib.Rng) []int {
	switch r.Intn(5) {
	case 0:
		return nil
	case 1:
		return []int{1}
	case 2:
		return []int{1 + r.Intn(7)}
	case 3:
		return []int{1 + r.Intn(5), 1 + r.Intn(50), 4096}
	}
	return []int{3, 1, 2}
}

// ---- data and options for the writers ----------------------------------------------------------

// GenData makes a value description. sorted=false restricts maps to one member (map iteration
// order is not part of a call's arguments). special allows values that fail on purpose.
func GenData(r *lib.Rng, depth int, sorted, special bool) DSpec {
	k := r.Intn(30)
	if depth <= 0 && (k == 8 || k == 9 || k == 10 || k == 11) {
		k = r.Intn(8)
	}
	switch k {
	case 0:
		return DSpec{K: "nil"}
	case 1:
		return DSpec{K: "bool", B: r.Bool()}
	case 2, 3:
		return DSpec{K: "int", I: lib.Pick(r, []int64{0, 1, -1, 42, 1234567890123, -9223372036854775808})}
	case 4:
		return DSpec{K: "float", F: lib.Pick(r, []float64{0, 1.5, -2.25, 1e20, 1e-7, 3.141592653589793})}
	case 5, 6, 7:
		return DSpec{K: "str", S: lib.Pick(r, []string{"", "abc", "a b", "q\"uote", "new\nline", "<html>&", "ünï", "true", "12", "a,b"})}
	case 8, 9:
		n := r.Intn(4)
		d := DSpec{K: "arr", A: make([]DSpec, n)}
		for i := range d.A {
			d.A[i] = GenData(r, depth-1, sorted, special)
		}
		return d
	case 10, 11:
		n := r.Intn(4)
		if !sorted && n > 1 {
			n = 1
		}
		d := DSpec{K: "obj"}
		seen := map[string]bool{}
		for i := 0; i < n; i++ {
			key := lib.Pick(r, []string{"a", "b", "c", "x", "y", "key two", ""})
			if seen[key] {
				continue
			}
			seen[key] = true
			d.KS = append(d.KS, key)
			d.A = append(d.A, GenData(r, depth-1, sorted, special))
		}
		return d
	case 12:
		return DSpec{K: "nilslice"}
	case 13:
		return DSpec{K: "nilmap"}
	case 14:
		return DSpec{K: "time", I: int64(r.Intn(100000))}
	case 15:
		return DSpec{K: "bytes", S: lib.Pick(r, []string{"", "raw", "\x00\x01"})}
	case 16:
		return DSpec{K: "inner", S: lib.Pick(r, []string{"", "in"}), I: int64(r.Intn(3)), A: []DSpec{{K: "int", I: 7}}}
	case 17:
		return DSpec{K: "pinner", S: lib.Pick(r, []string{"", "pin"}), I: int64(r.Intn(3))}
	case 18:
		d := DSpec{K: "outer", S: lib.Pick(r, []string{"", "out"}), I: int64(r.Intn(3)), B: r.Bool()}
		if r.Bool() {
			d.A = []DSpec{GenData(r, 0, sorted, false)}
		}
		return d
	case 19:
		return DSpec{K: "tagged", S: lib.Pick(r, []string{"", "tag"}), I: int64(r.Intn(2)), F: 1.5, B: r.Bool()}
	case 20:
		return DSpec{K: "embed", S: "em", I: int64(r.Intn(3))}
	case 21:
		return DSpec{K: "gener", A: []DSpec{GenData(r, 0, sorted, false)}}
	case 22:
		return DSpec{K: "genint", I: int64(r.Intn(100))}
	case 23:
		return DSpec{K: "genarr", A: []DSpec{{K: "int", I: 1}, {K: "str", S: "g"}}}
	case 24, 25:
		beh := "ok"
		if special {
			beh = lib.Pick(r, []string{"ok", "ok", "panic"})
		}
		return DSpec{K: "simp", S: beh, A: []DSpec{GenData(r, 0, sorted, false)}}
	case 26, 27:
		beh := "ok"
		if special {
			beh = lib.Pick(r, []string{"ok", "err", "panic"})
		}
		return DSpec{K: "marsh", S: beh, I: int64(r.Intn(50))}
	case 28:
		beh := "ok"
		if special {
			beh = lib.Pick(r, []string{"ok", "err"})
		}
		return DSpec{K: "text", S: beh, I: int64(r.Intn(50))}
	}
	return DSpec{K: "str", S: "z"}
}

// GenOpt makes the options of a writer call. Sort is always on when maps may have several members.
func GenOpt(r *lib.Rng, prettyW bool) OSpec {
	o := OSpec{Sort: true, HTMLUnsafe: r.Bool()}
	o.Indent = lib.Pick(r, []int{0, 0, 0, 1, 2, 4})
	o.Tab = r.Intn(8) == 0
	o.OmitNil = r.Intn(4) == 0
	o.OmitEmpty = r.Intn(4) == 0
	o.InitSize = lib.Pick(r, []int{0, 0, 1, 8, 300, -1})
	o.WriteLimit = lib.Pick(r, []int{0, 0, 1, 7, 1024, -1})
	o.Color = r.Intn(6) == 0
	o.UseTags = r.Intn(3) == 0
	o.KeyExact = r.Intn(3) == 0
	o.NestEmbed = r.Intn(4) == 0
	o.CreateKey = lib.Pick(r, []string{"", "", "", "^", "type"})
	o.FullType = r.Intn(5) == 0
	o.NoReflect = r.Intn(8) == 0
	o.TimeFormat = lib.Pick(r, []string{"", "", "second", "2006-01-02T15:04:05Z07:00"})
	o.TimeWrap = lib.Pick(r, []string{"", "", "@"})
	o.BytesAs = r.Intn(3)
	o.FloatFormat = lib.Pick(r, []string{"", "", "", "%.3g"})
	if prettyW {
		o.Width = lib.Pick(r, []int{80, 40, 20, 10, 0, 200})
		o.MaxDepth = lib.Pick(r, []int{3, 1, 2, 5})
		o.Align = r.Intn(3) == 0
		o.SEN = r.Bool()
		if o.InitSize < 0 {
			o.InitSize = 0
		}
		if o.WriteLimit < 0 {
			o.WriteLimit = 0
		}
	}
	return o
}

// ---- calls per subject ---------------------------------------------------------------------------

// Factory makes instances of one subject kind and random calls for it.
type Factory struct {
	Name  string
	New   func() Subject // the instance the history runs on
	Fresh func() Subject // a fresh instance for the comparison
	Gen   func(r *lib.Rng) Call
}

func genParserArgs(r *lib.Rng, c *Call, allowConv bool) {
	switch r.Intn(10) {
	case 0, 1:
		c.Args = append(c.Args, "cb")
	case 2:
		c.Args = append(c.Args, "cbbool")
	case 3:
		c.Args = append(c.Args, "chan")
	case 4:
		c.Args = append(c.Args, "cb", "chan")
	}
	if allowConv && r.Intn(3) == 0 {
		c.Args = append(c.Args, lib.Pick(r, []string{"conv:0", "conv:f", "conv:s"}))
	}
	if r.Intn(40) == 0 {
		c.Args = append(c.Args, "bad")
	}
	hasCb := false
	for _, a := range c.Args {
		if a == "cb" || a == "cbbool" {
			hasCb = true
		}
	}
	if hasCb && r.Intn(4) == 0 {
		c.Abort = fmt.Sprintf("cbpanic:%d", r.Intn(3))
	}
	c.Reuse = r.Intn(5) == 0
}

func withInput(r *lib.Rng, c *Call) string {
	in, tag := GenInput(r)
	c.In = hex.EncodeToString(in)
	return tag
}

func maybeReader(r *lib.Rng, c *Call, inLen int) {
	c.Chunks = genChunks(r)
	if r.Intn(6) == 0 && c.Abort == "" {
		c.Abort = fmt.Sprintf("readerr:%d", r.Intn(inLen+1))
	}
}

// Factories are the instance-based subjects of C07.
func Factories() []Factory {
	return []Factory{
		{Name: "oj.Parser", New: func() Subject { return &ojParser{} }, Fresh: func() Subject { return &ojParser{} },
			Gen: func(r *lib.Rng) Call {
				c := Call{Op: lib.Pick(r, []string{"Parse", "Parse", "ParseReader", "ParseReader", "Unmarshal"})}
				withInput(r, &c)
				if c.Op != "Unmarshal" {
					genParserArgs(r, &c, true)
				}
				if c.Op == "ParseReader" {
					maybeReader(r, &c, len(c.In)/2)
				}
				return c
			}},
		{Name: "gen.Parser", New: func() Subject { return &genParser{} }, Fresh: func() Subject { return &genParser{} },
			Gen: func(r *lib.Rng) Call {
				c := Call{Op: lib.Pick(r, []string{"Parse", "ParseReader"})}
				withInput(r, &c)
				genParserArgs(r, &c, false)
				if c.Op == "ParseReader" {
					maybeReader(r, &c, len(c.In)/2)
				}
				return c
			}},
		{Name: "oj.Validator", New: func() Subject { return &ojValidator{} }, Fresh: func() Subject { return &ojValidator{} },
			Gen: func(r *lib.Rng) Call {
				c := Call{Op: lib.Pick(r, []string{"Validate", "ValidateReader"}), OnlyOne: r.Bool()}
				withInput(r, &c)
				if c.Op == "ValidateReader" {
					maybeReader(r, &c, len(c.In)/2)
				}
				return c
			}},
		{Name: "oj.Tokenizer", New: func() Subject { return &ojTokenizer{} }, Fresh: func() Subject { return &ojTokenizer{} },
			Gen: func(r *lib.Rng) Call {
				c := Call{Op: lib.Pick(r, []string{"Parse", "Load"}), OnlyOne: r.Bool()}
				withInput(r, &c)
				if r.Intn(6) == 0 {
					c.Abort = fmt.Sprintf("tokpanic:%d", r.Intn(6))
				}
				if c.Op == "Load" {
					maybeReader(r, &c, len(c.In)/2)
				}
				return c
			}},
		{Name: "oj.Writer", New: func() Subject { return &ojWriter{} }, Fresh: func() Subject { return &ojWriter{} },
			Gen: func(r *lib.Rng) Call {
				c := Call{Op: lib.Pick(r, []string{"JSON", "JSON", "MustJSON", "Write", "Write", "MustWrite", "pkg.JSON", "pkg.Marshal", "pkg.Write"})}
				d := GenData(r, 3, true, true)
				o := GenOpt(r, false)
				c.Data, c.Opt = &d, &o
				if strings.HasSuffix(c.Op, "Write") && r.Intn(4) == 0 {
					c.Abort = fmt.Sprintf("wfail:%d", r.Intn(12))
				}
				return c
			}},
		{Name: "sen.Writer", New: func() Subject { return &senWriter{} }, Fresh: func() Subject { return &senWriter{} },
			Gen: func(r *lib.Rng) Call {
				c := Call{Op: lib.Pick(r, []string{"SEN", "SEN", "MustSEN", "Write", "Write", "MustWrite", "pkg.String", "pkg.Bytes", "pkg.Write"})}
				d := GenData(r, 3, true, true)
				o := GenOpt(r, false)
				c.Data, c.Opt = &d, &o
				if strings.HasSuffix(c.Op, "Write") && r.Intn(4) == 0 {
					c.Abort = fmt.Sprintf("wfail:%d", r.Intn(12))
				}
				return c
			}},
		{Name: "pretty.Writer", New: func() Subject { return &prettyWriter{} }, Fresh: func() Subject { return &prettyWriter{} },
			Gen: func(r *lib.Rng) Call {
				c := Call{Op: lib.Pick(r, []string{"Encode", "Encode", "Marshal", "Marshal", "Write"})}
				d := GenData(r, 3, true, true)
				o := GenOpt(r, true)
				c.Data, c.Opt = &d, &o
				if c.Op == "Write" && r.Intn(4) == 0 {
					c.Abort = fmt.Sprintf("wfail:%d", r.Intn(12))
				}
				return c
			}},
		PoolFactory(nil),
	}
}

// PoolFactory is the subject "the package-level functions": the instance is whatever the pools hand out.
func PoolFactory(env *Env) Factory {
	return Factory{Name: "pool", New: func() Subject { return &poolSubject{env: env} },
		Fresh: func() Subject { return &poolSubject{fresh: true, env: env} },
		Gen:   GenPoolCall}
}

// GenPoolCall makes a call of a package-level function that uses a pooled instance.
func GenPoolCall(r *lib.Rng) Call {
	c := Call{Op: lib.Pick(r, []string{"oj.Parse", "oj.Parse", "oj.MustParse", "oj.ParseString", "oj.Load", "oj.Load",
		"oj.JSON", "oj.JSON", "oj.Marshal", "oj.Marshal", "oj.Write", "sen.String", "sen.String", "sen.Bytes", "sen.Write"})}
	switch c.Op {
	case "oj.Parse", "oj.MustParse", "oj.ParseString", "oj.Load":
		withInput(r, &c)
		switch r.Intn(8) {
		case 0, 1:
			c.Args = append(c.Args, "cb")
			if r.Intn(3) == 0 {
				c.Abort = fmt.Sprintf("cbpanic:%d", r.Intn(3))
			}
		case 2:
			c.Args = append(c.Args, lib.Pick(r, []string{"conv:f", "conv:s"}))
		case 3:
			if r.Intn(8) == 0 {
				c.Args = append(c.Args, "bad")
			}
		}
		if c.Op == "oj.Load" {
			maybeReader(r, &c, len(c.In)/2)
		}
	default:
		// the pooled writers carry DefaultOptions (Sort off) resp. GoOptions: one member per map
		d := GenData(r, 3, false, true)
		c.Data = &d
		if strings.HasSuffix(c.Op, "Write") && r.Intn(4) == 0 {
			c.Abort = fmt.Sprintf("wfail:%d", r.Intn(12))
		}
	}
	return c
}

// sampleItem is a list member: x, y, a list of numbers `vals` (multi-valued filter operands) and a nested n.
func sampleItem(r *lib.Rng) DSpec {
	vals := DSpec{K: "arr"}
	for k := r.Intn(4); k > 0; k-- {
		vals.A = append(vals.A, DSpec{K: "int", I: int64(1 + r.Intn(3))})
	}
	return DSpec{K: "obj", KS: []string{"x", "y", "vals", "in"}, A: []DSpec{{K: "int", I: int64(r.Intn(4))},
		{K: "str", S: lib.Pick(r, []string{"a", "b", "cc"})}, vals,
		{K: "obj", KS: []string{"n"}, A: []DSpec{{K: "int", I: int64(r.Intn(3))}}}}}
}

// sampleDoc is the data the shared expressions are evaluated on (private to the call).
func sampleDoc(r *lib.Rng) DSpec {
	n := 1 + r.Intn(4)
	l := DSpec{K: "arr"}
	for i := 0; i < n; i++ {
		l.A = append(l.A, sampleItem(r))
	}
	return DSpec{K: "obj", KS: []string{"a", "l", "c", "o"}, A: []DSpec{
		{K: "obj", KS: []string{"b"}, A: []DSpec{{K: "int", I: int64(r.Intn(10))}}},
		l,
		{K: "str", S: lib.Pick(r, []string{"s", "t"})},
		{K: "obj", KS: []string{"p"}, A: []DSpec{{K: "obj", KS: []string{"q"}, A: []DSpec{{K: "bool", B: r.Bool()}}}}},
	}}
}

// GenSharedCall makes a call that goes through something goroutines share (C08).
func GenSharedCall(r *lib.Rng) Call {
	op := lib.Pick(r, []string{"jp.Get", "jp.Get", "jp.First", "jp.Has", "jp.Set", "jp.Del", "script.Match", "script.Eval",
		"alt.Decompose", "alt.Generify", "rec.Recompose", "rec.Board", "rec.Board", "rec.Nest", "rec.Nest", "oj.Unmarshal", "pretty.JSON", "pretty.SEN", "oj.JSON.opt",
		"sen.String.opt", "oj.Validate", "oj.Tokenize", "oj.ValidateReader", "oj.TokenizeLoad", "sen.Parse", "alt.Alter", "alt.Dup", "jp.Remove",
		"sen.MustParse", "sen.ParseReader", "sen.MustParseReader", "oj.MustLoad", "oj.MustParseString", "oj.Marshal.opt", "oj.Write.opt", "sen.Write.opt",
		"jp.Get", "script.Match", "alt.Decompose", "alt.Dup"})
	c := Call{Op: op, Path: r.Intn(64), Val: int64(r.Intn(100))}
	if op == "jp.First" {
		// the first match of a wildcard or descent over a map depends on map order
		for strings.Contains(ExprTexts[c.Path%len(ExprTexts)], "..") || strings.Contains(ExprTexts[c.Path%len(ExprTexts)], ".*") {
			c.Path = r.Intn(64)
		}
	}
	switch op {
	case "jp.Get", "jp.First", "jp.Has", "jp.Set", "jp.Del", "jp.Remove":
		d := sampleDoc(r)
		c.Data = &d
	case "script.Match":
		d := sampleItem(r)
		c.Data = &d
	case "script.Eval":
		d := sampleDoc(r)
		c.Data = &d.A[1]
	case "alt.Decompose", "alt.Generify", "alt.Alter", "alt.Dup", "pretty.JSON", "pretty.SEN", "oj.JSON.opt", "sen.String.opt",
		"oj.Marshal.opt", "oj.Write.opt", "sen.Write.opt":
		d := GenData(r, 3, true, false)
		if r.Intn(4) == 0 { // time values, for the options that write them as maps
			d = DSpec{K: "arr", A: []DSpec{{K: "time", I: int64(r.Intn(1000))}, d}}
		}
		c.Data = &d
	case "rec.Recompose":
		c.Data = &DSpec{K: "inner", S: lib.Pick(r, []string{"", "r"}), I: int64(r.Intn(9))}
	case "oj.Unmarshal", "oj.Validate", "oj.Tokenize", "sen.Parse", "sen.MustParse", "oj.MustParseString":
		withInput(r, &c)
	case "oj.ValidateReader", "oj.TokenizeLoad", "sen.ParseReader", "sen.MustParseReader", "oj.MustLoad":
		withInput(r, &c)
		c.Chunks = genChunks(r)
	}
	return c
}
