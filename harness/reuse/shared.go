package reuse

import (
	"fmt"
	"io"
	"reflect"
	"runtime"
	"sort"
	"strings"
	"time"

	"github.com/ohler55/ojg"
	"github.com/ohler55/ojg/alt"
	"github.com/ohler55/ojg/oj"
	"github.com/ohler55/ojg/pretty"
	"github.com/ohler55/ojg/sen"

	"verif/harness/lib"
)

// ---- fingerprints of shared values (unexported fields included) --------------------------------------

// Fingerprint renders everything reachable from v — unexported fields too (reflect may read them) — so
// that a shared Expr, Script or options value can be compared before and after the calls that use it.
func Fingerprint(v any) string {
	var sb strings.Builder
	fingerprint(reflect.ValueOf(v), &sb, 0)
	return sb.String()
}

func fingerprint(v reflect.Value, sb *strings.Builder, depth int) {
	if !v.IsValid() {
		sb.WriteString("<invalid>")
		return
	}
	if depth > 14 {
		sb.WriteString("<deep>")
		return
	}
	t := v.Type()
	if pk := t.PkgPath(); pk == "regexp" || pk == "sync" || pk == "time" || strings.HasPrefix(pk, "regexp/") {
		fmt.Fprintf(sb, "<%s>", t)
		return
	}
	switch v.Kind() {
	case reflect.Ptr:
		if v.IsNil() {
			sb.WriteString("nil*")
			return
		}
		sb.WriteByte('&')
		fingerprint(v.Elem(), sb, depth+1)
	case reflect.Interface:
		if v.IsNil() {
			sb.WriteString("nil-iface")
			return
		}
		fmt.Fprintf(sb, "(%s)", v.Elem().Type())
		fingerprint(v.Elem(), sb, depth+1)
	case reflect.Struct:
		fmt.Fprintf(sb, "%s{", t.Name())
		for i := 0; i < v.NumField(); i++ {
			fmt.Fprintf(sb, "%s:", t.Field(i).Name)
			fingerprint(v.Field(i), sb, depth+1)
			sb.WriteByte(' ')
		}
		sb.WriteByte('}')
	case reflect.Slice:
		if v.IsNil() {
			sb.WriteString("nil[]")
			return
		}
		fallthrough
	case reflect.Array:
		fmt.Fprintf(sb, "[%d:", v.Len())
		for i := 0; i < v.Len(); i++ {
			fingerprint(v.Index(i), sb, depth+1)
			sb.WriteByte(' ')
		}
		sb.WriteByte(']')
	case reflect.Map:
		if v.IsNil() {
			sb.WriteString("nil-map")
			return
		}
		var parts []string
		it := v.MapRange()
		for it.Next() {
			var e strings.Builder
			fingerprint(it.Key(), &e, depth+1)
			e.WriteByte('=')
			fingerprint(it.Value(), &e, depth+1)
			parts = append(parts, e.String())
		}
		sort.Strings(parts)
		sb.WriteString("map{" + strings.Join(parts, " ") + "}")
	case reflect.String:
		fmt.Fprintf(sb, "%q", v.String())
	case reflect.Bool:
		fmt.Fprintf(sb, "%v", v.Bool())
	case reflect.Int, reflect.Int8, reflect.Int16, reflect.Int32, reflect.Int64:
		fmt.Fprintf(sb, "%d", v.Int())
	case reflect.Uint, reflect.Uint8, reflect.Uint16, reflect.Uint32, reflect.Uint64, reflect.Uintptr:
		fmt.Fprintf(sb, "%d", v.Uint())
	case reflect.Float32, reflect.Float64:
		fmt.Fprintf(sb, "%v", v.Float())
	case reflect.Func:
		if v.IsNil() {
			sb.WriteString("nil-func")
		} else {
			sb.WriteString("func")
		}
	default:
		fmt.Fprintf(sb, "<%s>", v.Kind())
	}
}

// EnvPrint is the fingerprint of everything goroutines share through an Env.
func (e *Env) EnvPrint() []string {
	var out []string
	for i, x := range e.Exprs {
		out = append(out, fmt.Sprintf("expr %d %s\t%s", i, ExprTexts[i], Fingerprint(x)))
	}
	for i, s := range e.Scripts {
		out = append(out, fmt.Sprintf("script %d %s\t%s", i, ScriptTexts[i], Fingerprint(s)))
	}
	for i, o := range e.Opts {
		out = append(out, fmt.Sprintf("options %d\t%s", i, Fingerprint(o)))
	}
	return out
}

// envDiff names what changed.
func envDiff(before, after []string) []string {
	var out []string
	for i := range before {
		if i < len(after) && before[i] != after[i] {
			name := before[i][:strings.IndexByte(before[i], '\t')]
			b, a := before[i][len(name)+1:], after[i][len(name)+1:]
			k := 0
			for k < len(a) && k < len(b) && a[k] == b[k] {
				k++
			}
			lo := k - 60
			if lo < 0 {
				lo = 0
			}
			out = append(out, fmt.Sprintf("%s: was …%s, is …%s", name, clip(b[lo:]), clip(a[lo:])))
		}
	}
	return out
}

// SharedUntouched is the deterministic oracle for "a shared Expr, Filter, Script or options value is only
// read by the calls that use it": every shared value is fingerprinted (unexported fields included), the
// calls are made one after the other on ONE goroutine over a catalogue of data (multi-valued filter
// operands, time values with TimeMap options, structs), and the fingerprints are compared again.
func (run *Run) SharedUntouched(emit func(lib.Finding)) int {
	env := NewEnv()
	before := env.EnvPrint()
	pool := &poolSubject{env: env}
	rng := lib.NewRng(run.Seed + 77)
	n := 0
	check := func(c *Call) {
		n++
		pool.Exec(c)
		after := env.EnvPrint()
		for _, d := range envDiff(before, after) {
			emit(lib.Finding{Kind: "violation", Class: "shared-value-written:" + c.Op + ":" + strings.Fields(d)[0],
				What:   fmt.Sprintf("a value that goroutines share was written by a call that only uses it: after %s (one goroutine, nothing concurrent) %s", c.Op, d),
				Replay: map[string]any{"scenario": "shared-untouched", "call": Replay(c)}})
		}
		before = after
	}
	// every expression and script on documents with multi-valued operands
	for rep := 0; rep < 3; rep++ {
		for i := range env.Exprs {
			for _, op := range []string{"jp.Get", "jp.First", "jp.Has", "jp.Set", "jp.Del", "jp.Remove"} {
				d := sampleDoc(rng)
				check(&Call{Op: op, Path: i, Data: &d, Val: int64(rep)})
			}
		}
		for i := range env.Scripts {
			d := sampleItem(rng)
			check(&Call{Op: "script.Match", Path: i, Data: &d})
			l := sampleDoc(rng)
			check(&Call{Op: "script.Eval", Path: i, Data: &l.A[1]})
		}
	}
	// every options value with every kind of data (time values first)
	datas := []DSpec{{K: "time", I: 5}, {K: "arr", A: []DSpec{{K: "time", I: 7}, {K: "inner", S: "x", I: 1}}},
		{K: "outer", S: "o", I: 1, B: true, A: []DSpec{{K: "time", I: 9}}}, {K: "tagged", S: "t", I: 1},
		{K: "obj", KS: []string{"a"}, A: []DSpec{{K: "nilslice"}}}, {K: "embed", S: "e", I: 2}}
	for i := 0; i < 12; i++ {
		datas = append(datas, GenData(rng, 3, true, false))
	}
	for oi := range env.Opts {
		for di := range datas {
			for _, op := range []string{"alt.Decompose", "alt.Alter", "alt.Dup", "alt.Generify", "oj.JSON.opt", "sen.String.opt",
				"pretty.JSON", "pretty.SEN", "oj.Marshal.opt", "oj.Write.opt", "sen.Write.opt"} {
				d := datas[di]
				check(&Call{Op: op, Path: oi, Data: &d})
			}
		}
	}
	run.Rep.Count("c08.shared_untouched.calls", int64(n))
	return n
}

// ---- overlap after a failed pooled call -------------------------------------------------------------

type gate struct {
	entered chan struct{}
	release chan struct{}
	once    bool
}

func newGate(open bool) *gate {
	g := &gate{entered: make(chan struct{}), release: make(chan struct{})}
	if open {
		close(g.release)
	}
	return g
}

func (g *gate) wait() {
	if !g.once {
		g.once = true
		close(g.entered)
	}
	<-g.release
}

// gatedReader delivers the first half, then waits at the gate, then the rest.
type gatedReader struct {
	data []byte
	pos  int
	g    *gate
}

func (r *gatedReader) Read(p []byte) (int, error) {
	if r.pos >= len(r.data) {
		return 0, io.EOF
	}
	end := len(r.data)
	if r.pos == 0 {
		end = len(r.data) / 2
	} else {
		r.g.wait()
	}
	n := copy(p, r.data[r.pos:end])
	r.pos += n
	return n, nil
}

// RGate is a Simplifier that waits at the gate in the middle of a write.
type RGate struct {
	g *gate
	V any
}

func (s *RGate) Simplify() any {
	s.g.wait()
	return s.V
}

func guarded(f func() string) (out string) {
	defer func() {
		if r := recover(); r != nil {
			out = panicText(r)
		}
	}()
	return f()
}

type overlapGroup struct {
	name  string
	a     func(g *gate) string // a call that waits at the gate while it holds its pooled instance
	b     func() string        // a complete call of the same pool
	fails []namedCall          // calls of that pool that fail (error or panic path)
}

type namedCall struct {
	name string
	f    func()
}

func overlapGroups() []overlapGroup {
	docA := []byte(`[1,2,{"a":[true,"first caller"],"k":{"deep":[1.5,null]}},"tail"]`)
	docB := []byte(`{"b":[3,4,5],"c":"SECOND CALLER","d":{"e":[false]}}`)
	bad1 := []byte(`[1,2] x`)
	bad2 := []byte(`{"a":[1,`)
	wdataA := func(g *gate) any { return []any{"first caller", &RGate{g: g, V: "mid"}, int64(1), "tail"} }
	wdataB := []any{"SECOND CALLER", int64(2), int64(3), []any{"bbbbbbbbbbbbbbbb"}}
	panicData := []any{"x", &RSimp{S: "panic"}}
	rd := func(b []byte) io.Reader { return &chunkReader{data: append([]byte{}, b...), failAt: -1} }
	res := func(v any, err error) string { return Render(v) + " E=" + errText(err) }
	var groups []overlapGroup
	groups = append(groups, overlapGroup{name: "oj.parserPool",
		a: func(g *gate) string { return res(oj.Load(&gatedReader{data: docA, g: g})) },
		b: func() string { return res(oj.Parse(append([]byte{}, docB...))) },
		fails: []namedCall{
			{"oj.Parse", func() { _, _ = oj.Parse(bad1) }}, {"oj.MustParse", func() { oj.MustParse(bad2) }},
			{"oj.ParseString", func() { _, _ = oj.ParseString(string(bad1)) }}, {"oj.MustParseString", func() { oj.MustParseString(string(bad2)) }},
			{"oj.Load", func() { _, _ = oj.Load(rd(bad1)) }}, {"oj.MustLoad", func() { oj.MustLoad(rd(bad2)) }},
			{"oj.Parse+callback-panic", func() { _, _ = oj.Parse(append([]byte{}, docA...), func(any) { panic("callback") }) }},
		}})
	groups = append(groups, overlapGroup{name: "sen.parserPool",
		a: func(g *gate) string { return res(sen.ParseReader(&gatedReader{data: docA, g: g})) },
		b: func() string { return res(sen.Parse(append([]byte{}, docB...))) },
		fails: []namedCall{
			{"sen.Parse", func() { _, _ = sen.Parse(bad1) }}, {"sen.MustParse", func() { sen.MustParse(bad2) }},
			{"sen.ParseReader", func() { _, _ = sen.ParseReader(rd(bad1)) }}, {"sen.MustParseReader", func() { sen.MustParseReader(rd(bad1)) }},
			{"sen.MustParseReader/incomplete", func() { sen.MustParseReader(rd(bad2)) }},
			{"sen.Parse+callback-panic", func() { _, _ = sen.Parse(append([]byte{}, docA...), func(any) bool { panic("callback") }) }},
		}})
	groups = append(groups, overlapGroup{name: "oj.writerPool",
		a: func(g *gate) string { return oj.JSON(wdataA(g)) },
		b: func() string { return oj.JSON(wdataB) },
		fails: []namedCall{
			{"oj.JSON", func() { _ = oj.JSON(panicData) }},
			{"oj.Write/writer-fails", func() { _ = oj.Write(&sink{failAfter: 3}, wdataB) }},
			{"oj.Write", func() { _ = oj.Write(&sink{failAfter: -1}, panicData) }},
		}})
	groups = append(groups, overlapGroup{name: "oj.marshalPool",
		a: func(g *gate) string { b, err := oj.Marshal(wdataA(g)); return string(b) + " E=" + errText(err) },
		b: func() string { b, err := oj.Marshal(wdataB); return string(b) + " E=" + errText(err) },
		fails: []namedCall{
			{"oj.Marshal", func() { _, _ = oj.Marshal(panicData) }},
			{"oj.Marshal/marshaler-error", func() { _, _ = oj.Marshal([]any{&RMarsh{S: "err"}}) }},
		}})
	groups = append(groups, overlapGroup{name: "sen.writerPool",
		a: func(g *gate) string { return sen.String(wdataA(g)) },
		b: func() string { return sen.String(wdataB) },
		fails: []namedCall{
			{"sen.String", func() { _ = sen.String(panicData) }}, {"sen.Bytes", func() { _ = sen.Bytes(panicData) }},
			{"sen.Write/writer-fails", func() { _ = sen.Write(&sink{failAfter: 3}, wdataB) }},
			{"sen.Write", func() { _ = sen.Write(&sink{failAfter: -1}, panicData) }},
		}})
	return groups
}

// OverlapAfterFailure is the deterministic oracle for the pool protocol ("one Get, one Put, on every
// path"): after a pooled call has FAILED (error return or panic), call A of the same pool is stopped
// while it holds its instance, call B of the same pool runs to the end, A is released. On one P the
// second taker gets whatever the pool holds next: if the failing call put its instance back twice, A
// and B work on the same instance. Both results must be what the calls return when run alone.
func (run *Run) OverlapAfterFailure(emit func(lib.Finding)) int {
	old := runtime.GOMAXPROCS(1)
	defer runtime.GOMAXPROCS(old)
	n := 0
	for _, grp := range overlapGroups() {
		wantA := guarded(func() string { return grp.a(newGate(true)) })
		wantB := guarded(grp.b)
		fails := append([]namedCall{{"(no failure)", func() {}}}, grp.fails...)
		for _, fc := range fails {
			for rep := 0; rep < 2; rep++ {
				n++
				// one case with a time budget; on a timeout the whole case is run again, alone, with ten times
				// the budget, and only a second timeout (or a wrong result) is reported
				attempt := func(budget time.Duration) (gotA, gotB string, stuck bool) {
					_ = guarded(func() string { fc.f(); return "" })
					g := newGate(false)
					doneA := make(chan string, 1)
					go func() { doneA <- guarded(func() string { return grp.a(g) }) }()
					select {
					case <-g.entered:
						run.Rep.Count("c08.overlap.a_stopped_mid_call", 1)
						gotB = guarded(grp.b)
						close(g.release)
						select {
						case gotA = <-doneA:
						case <-time.After(budget):
							stuck = true
						}
					case gotA = <-doneA: // never reached the gate
						gotB = guarded(grp.b)
					case <-time.After(budget):
						stuck = true
						close(g.release)
					}
					return
				}
				gotA, gotB, stuck := attempt(5 * time.Second)
				if stuck {
					run.Rep.Count("c08.overlap.watchdog_retries", 1)
					gotA, gotB, stuck = attempt(50 * time.Second)
				}
				run.Rep.Count("c08.overlap.cases", 1)
				if !stuck && normAddr(gotA) == normAddr(wantA) && normAddr(gotB) == normAddr(wantB) {
					continue
				}
				emit(lib.Finding{Kind: "violation", Class: "overlap-after-failure:" + grp.name + ":" + fc.name,
					What: fmt.Sprintf("%s: after the failed call %s, call A (stopped while it holds its pooled instance) and call B (run to the end meanwhile) do not return what they return alone: "+
						"A %s (alone %s), B %s (alone %s)%s — the two calls were handed the same instance: the failing path gives its instance back more than once, or a later call still uses it",
						grp.name, fc.name, clip(gotA), clip(wantA), clip(gotB), clip(wantB), map[bool]string{true: " [A did not finish]", false: ""}[stuck]),
					Replay: map[string]any{"scenario": "overlap-after-failure", "pool": grp.name, "failing_call": fc.name, "gomaxprocs": 1,
						"schedule": "fail(); A starts and stops mid-call; B runs; A resumes"}})
				break
			}
		}
	}
	return n
}

// unused import guards (the option ops live in exec.go)
var _ = ojg.DefaultOptions
var _ = alt.Decompose
var _ = pretty.JSON
