// Package reuse is the engine of the C07/C08 harness: serialisable descriptions of calls (so that a
// finding can be replayed), the code that performs a call on a given instance or through the
// package-level pooled functions, generators of call histories, and the two property runs.
package reuse

import (
	"encoding/json"
	"errors"
	"fmt"
	"math"
	"reflect"
	"sort"
	"strings"
	"time"

	"github.com/ohler55/ojg"
	"github.com/ohler55/ojg/gen"
)

// DSpec describes a value handed to a writer.
type DSpec struct {
	K string  `json:"k"`           // nil bool int float str arr obj nilslice nilmap time bytes inner outer tagged embed simp gener marsh text genint genarr
	B bool    `json:"b,omitempty"` // bool value
	I int64   `json:"i,omitempty"`
	F float64 `json:"f,omitempty"`
	S string  `json:"s,omitempty"` // string value; for marsh/text/simp: behaviour ("ok", "err", "panic")
	A []DSpec `json:"a,omitempty"` // array members; object members are A[i] under key KS[i]
	KS []string `json:"ks,omitempty"`
}

// OSpec describes the writer options of a call (the fields of ojg.Options and pretty.Writer we vary).
type OSpec struct {
	Indent      int    `json:"indent,omitempty"`
	Tab         bool   `json:"tab,omitempty"`
	Sort        bool   `json:"sort,omitempty"`
	OmitNil     bool   `json:"omitnil,omitempty"`
	OmitEmpty   bool   `json:"omitempty,omitempty"`
	InitSize    int    `json:"initsize,omitempty"`
	WriteLimit  int    `json:"writelimit,omitempty"`
	Color       bool   `json:"color,omitempty"`
	HTMLUnsafe  bool   `json:"htmlunsafe,omitempty"`
	UseTags     bool   `json:"usetags,omitempty"`
	KeyExact    bool   `json:"keyexact,omitempty"`
	NestEmbed   bool   `json:"nestembed,omitempty"`
	CreateKey   string `json:"createkey,omitempty"`
	FullType    bool   `json:"fulltype,omitempty"`
	NoReflect   bool   `json:"noreflect,omitempty"`
	TimeFormat  string `json:"timeformat,omitempty"`
	TimeWrap    string `json:"timewrap,omitempty"`
	BytesAs     int    `json:"bytesas,omitempty"`
	FloatFormat string `json:"floatformat,omitempty"`
	// pretty.Writer
	Width    int  `json:"width,omitempty"`
	MaxDepth int  `json:"maxdepth,omitempty"`
	Align    bool `json:"align,omitempty"`
	SEN      bool `json:"sen,omitempty"`
}

// Call is one call of a history.
type Call struct {
	Op      string   `json:"op"`
	In      string   `json:"in,omitempty"`      // hex of the input bytes (parsers)
	Chunks  []int    `json:"chunks,omitempty"`  // sizes the io.Reader delivers (cyclic); empty = as much as asked
	Args    []string `json:"args,omitempty"`    // parser arguments: cb cbbool chan conv:0 conv:f conv:s bad
	Abort   string   `json:"abort,omitempty"`   // cbpanic:k readerr:k tokpanic:k wfail:k
	Reuse   bool     `json:"reuse,omitempty"`   // Parser.Reuse for this call
	OnlyOne bool     `json:"onlyone,omitempty"` // Validator/Tokenizer.OnlyOne for this call
	Data    *DSpec   `json:"data,omitempty"`
	Opt     *OSpec   `json:"opt,omitempty"`
	Path    int      `json:"path,omitempty"`    // index of the shared expression / script (C08)
	Val     int64    `json:"val,omitempty"`     // value for Set (C08)
}

// ---- values written ---------------------------------------------------------------------------

type RInner struct {
	A string
	B int
	C []int
}

type ROuter struct {
	In   RInner
	P    *RInner
	L    []RInner
	X    any
	Name string `json:"name,omitempty"`
}

type RTagged struct {
	First  string  `json:"first"`
	Second int     `json:"second,omitempty"`
	Third  float64 `json:"-"`
	Fourth bool    `json:",string"`
}

type REmbed struct {
	RInner
	Z int
}

// RSimp implements alt.Simplifier; S says what Simplify does.
type RSimp struct {
	S string
	V any
}

func (s *RSimp) Simplify() any {
	if s.S == "panic" {
		panic("simplify failed on purpose")
	}
	return s.V
}

// RGener implements alt.Genericer.
type RGener struct{ V any }

func (g *RGener) Generic() gen.Node {
	return gen.Object{"v": toNode(g.V)}
}

// RMarsh implements json.Marshaler.
type RMarsh struct {
	S string
	V int64
}

func (m *RMarsh) MarshalJSON() ([]byte, error) {
	switch m.S {
	case "err":
		return nil, errors.New("marshal failed on purpose")
	case "panic":
		panic("marshal panicked on purpose")
	}
	return []byte(fmt.Sprintf(`{"m":%d}`, m.V)), nil
}

// RText implements encoding.TextMarshaler.
type RText struct {
	S string
	V int64
}

func (m *RText) MarshalText() ([]byte, error) {
	if m.S == "err" {
		return nil, errors.New("text failed on purpose")
	}
	return []byte(fmt.Sprintf("t%d", m.V)), nil
}

func toNode(v any) gen.Node {
	switch t := v.(type) {
	case nil:
		return nil
	case bool:
		return gen.Bool(t)
	case int64:
		return gen.Int(t)
	case float64:
		return gen.Float(t)
	case string:
		return gen.String(t)
	case []any:
		a := make(gen.Array, len(t))
		for i, m := range t {
			a[i] = toNode(m)
		}
		return a
	case map[string]any:
		o := gen.Object{}
		for k, m := range t {
			o[k] = toNode(m)
		}
		return o
	}
	return gen.String(fmt.Sprintf("%T", v))
}

var baseTime = time.Date(2021, 4, 12, 16, 34, 4, 123456789, time.UTC)

// Build makes the Go value a DSpec describes. Every call builds a new value (calls never share data).
func (d *DSpec) Build() any {
	if d == nil {
		return nil
	}
	switch d.K {
	case "nil":
		return nil
	case "bool":
		return d.B
	case "int":
		return d.I
	case "float":
		return d.F
	case "str":
		return d.S
	case "arr":
		a := make([]any, len(d.A))
		for i := range d.A {
			a[i] = d.A[i].Build()
		}
		return a
	case "obj":
		m := map[string]any{}
		for i := range d.A {
			if i < len(d.KS) {
				m[d.KS[i]] = d.A[i].Build()
			}
		}
		return m
	case "nilslice":
		var a []any
		return a
	case "nilmap":
		var m map[string]any
		return m
	case "time":
		return baseTime.Add(time.Duration(d.I) * time.Millisecond)
	case "bytes":
		return []byte(d.S)
	case "inner":
		return RInner{A: d.S, B: int(d.I), C: intsOf(d.A)}
	case "pinner":
		return &RInner{A: d.S, B: int(d.I), C: intsOf(d.A)}
	case "outer":
		o := ROuter{In: RInner{A: d.S, B: int(d.I)}, Name: d.S}
		if d.B {
			o.P = &RInner{A: "p", B: int(d.I) + 1}
			o.L = []RInner{{A: d.S}, {B: 2, C: []int{1}}}
		}
		if len(d.A) > 0 {
			o.X = d.A[0].Build()
		}
		return &o
	case "tagged":
		return &RTagged{First: d.S, Second: int(d.I), Third: d.F, Fourth: d.B}
	case "embed":
		return &REmbed{RInner: RInner{A: d.S, B: int(d.I)}, Z: int(d.I) * 2}
	case "simp":
		var v any
		if len(d.A) > 0 {
			v = d.A[0].Build()
		}
		return &RSimp{S: d.S, V: v}
	case "gener":
		var v any
		if len(d.A) > 0 {
			v = d.A[0].Build()
		}
		return &RGener{V: v}
	case "marsh":
		return &RMarsh{S: d.S, V: d.I}
	case "text":
		return &RText{S: d.S, V: d.I}
	case "genint":
		return gen.Int(d.I)
	case "genarr":
		a := make(gen.Array, len(d.A))
		for i := range d.A {
			a[i] = toNode(d.A[i].Build())
		}
		return a
	}
	return fmt.Sprintf("?%s", d.K)
}

func intsOf(a []DSpec) []int {
	if len(a) == 0 {
		return nil
	}
	out := make([]int, len(a))
	for i := range a {
		out[i] = int(a[i].I)
	}
	return out
}

// Options builds the ojg.Options of a call.
func (o *OSpec) Options() ojg.Options {
	opt := ojg.DefaultOptions
	if o == nil {
		return opt
	}
	opt.Indent = o.Indent
	opt.Tab = o.Tab
	opt.Sort = o.Sort
	opt.OmitNil = o.OmitNil
	opt.OmitEmpty = o.OmitEmpty
	opt.InitSize = o.InitSize
	opt.WriteLimit = o.WriteLimit
	opt.Color = o.Color
	opt.HTMLUnsafe = o.HTMLUnsafe
	opt.UseTags = o.UseTags
	opt.KeyExact = o.KeyExact
	opt.NestEmbed = o.NestEmbed
	opt.CreateKey = o.CreateKey
	opt.FullTypePath = o.FullType
	opt.NoReflect = o.NoReflect
	opt.TimeFormat = o.TimeFormat
	opt.TimeWrap = o.TimeWrap
	opt.BytesAs = o.BytesAs
	opt.FloatFormat = o.FloatFormat
	return opt
}

// ---- rendering ---------------------------------------------------------------------------------

// Render writes a value with the dynamic type of every leaf, members of maps sorted. Floats as bits.
func Render(v any) string {
	var sb renderBuf
	render(&sb, v, 0)
	return sb.String()
}

// renderBuf: the text so far and the maps on the path from the root to the value being written. A map
// that contains itself (a parser handing out the same map twice can build one) is written as
// "<cycle>" where it recurs; a text beyond renderCap is cut with "<big>" (a value that shares one map
// in many places is a tree of exponential size when written out).
type renderBuf struct {
	strings.Builder
	path map[uintptr]bool
}

const renderCap = 16 << 20

func (sb *renderBuf) enter(p uintptr) bool {
	if sb.path[p] {
		return false
	}
	if sb.path == nil {
		sb.path = map[uintptr]bool{}
	}
	sb.path[p] = true
	return true
}

func (sb *renderBuf) leave(p uintptr) { delete(sb.path, p) }

func render(sb *renderBuf, v any, depth int) {
	if depth > 200 {
		sb.WriteString("<deep>")
		return
	}
	if sb.Len() > renderCap {
		sb.WriteString("<big>")
		return
	}
	switch t := v.(type) {
	case nil:
		sb.WriteString("nil")
	case bool:
		fmt.Fprintf(sb, "b:%v", t)
	case int64:
		fmt.Fprintf(sb, "i:%d", t)
	case int:
		fmt.Fprintf(sb, "int:%d", t)
	case float64:
		fmt.Fprintf(sb, "f:%016x", math.Float64bits(t))
	case string:
		fmt.Fprintf(sb, "s:%q", t)
	case json.Number:
		fmt.Fprintf(sb, "num:%q", string(t))
	case []byte:
		fmt.Fprintf(sb, "bytes:%q", string(t))
	case []any:
		if t == nil {
			sb.WriteString("nil[]")
			return
		}
		sb.WriteByte('[')
		for i, x := range t {
			if i > 0 {
				sb.WriteByte(' ')
			}
			render(sb, x, depth+1)
		}
		sb.WriteByte(']')
	case map[string]any:
		if t == nil {
			sb.WriteString("nil{}")
			return
		}
		if p := reflect.ValueOf(t).Pointer(); !sb.enter(p) {
			sb.WriteString("<cycle>")
			return
		} else {
			defer sb.leave(p)
		}
		keys := make([]string, 0, len(t))
		for k := range t {
			keys = append(keys, k)
		}
		sort.Strings(keys)
		sb.WriteByte('{')
		for i, k := range keys {
			if i > 0 {
				sb.WriteByte(' ')
			}
			fmt.Fprintf(sb, "%q:", k)
			render(sb, t[k], depth+1)
		}
		sb.WriteByte('}')
	case gen.Bool:
		fmt.Fprintf(sb, "gb:%v", bool(t))
	case gen.Int:
		fmt.Fprintf(sb, "gi:%d", int64(t))
	case gen.Float:
		fmt.Fprintf(sb, "gf:%016x", math.Float64bits(float64(t)))
	case gen.String:
		fmt.Fprintf(sb, "gs:%q", string(t))
	case gen.Big:
		fmt.Fprintf(sb, "gbig:%q", string(t))
	case gen.Array:
		if t == nil {
			sb.WriteString("gnil[]")
			return
		}
		sb.WriteString("g[")
		for i, x := range t {
			if i > 0 {
				sb.WriteByte(' ')
			}
			render(sb, x, depth+1)
		}
		sb.WriteByte(']')
	case gen.Object:
		if t == nil {
			sb.WriteString("gnil{}")
			return
		}
		if p := reflect.ValueOf(t).Pointer(); !sb.enter(p) {
			sb.WriteString("<cycle>")
			return
		} else {
			defer sb.leave(p)
		}
		keys := make([]string, 0, len(t))
		for k := range t {
			keys = append(keys, k)
		}
		sort.Strings(keys)
		sb.WriteString("g{")
		for i, k := range keys {
			if i > 0 {
				sb.WriteByte(' ')
			}
			fmt.Fprintf(sb, "%q:", k)
			render(sb, t[k], depth+1)
		}
		sb.WriteByte('}')
	case error:
		fmt.Fprintf(sb, "err:%q", t.Error())
	default:
		rv := reflect.ValueOf(v)
		switch rv.Kind() {
		case reflect.Slice, reflect.Array:
			fmt.Fprintf(sb, "%T[", v)
			for i := 0; i < rv.Len(); i++ {
				if i > 0 {
					sb.WriteByte(' ')
				}
				render(sb, rv.Index(i).Interface(), depth+1)
			}
			sb.WriteByte(']')
		case reflect.Ptr:
			if rv.IsNil() {
				fmt.Fprintf(sb, "%T(nil)", v)
			} else {
				fmt.Fprintf(sb, "&")
				render(sb, rv.Elem().Interface(), depth+1)
			}
		default:
			fmt.Fprintf(sb, "%T:%+v", v, v)
		}
	}
}

// Replay turns a value with json tags into the map the report wants.
func Replay(v any) map[string]any {
	js, err := json.Marshal(v)
	if err != nil {
		return map[string]any{"error": err.Error()}
	}
	var m map[string]any
	dec := json.NewDecoder(strings.NewReader(string(js)))
	dec.UseNumber() // int64 values stay exact
	if err := dec.Decode(&m); err != nil {
		return map[string]any{"raw": string(js)}
	}
	return m
}
