package reuse

import (
	"encoding/hex"
	"encoding/json"
	"fmt"
	"hash/fnv"
	"os"
	"reflect"
	"runtime"
	"strings"
	"sync"

	"github.com/ohler55/ojg"
	"github.com/ohler55/ojg/oj"
	"github.com/ohler55/ojg/sen"

	"verif/harness/lib"
)

// Run holds what a property run needs.
type Run struct {
	Prop    string
	Tier    string
	Seed    uint64
	Rep     *lib.Report
	Known   []lib.Known
	Workers int
	Repo    string // the tree under test (for the race sub-step)
	Verif   string // /verif
}

// History is a replayable case.
type History struct {
	Subject string `json:"subject"`
	Calls   []Call `json:"calls"`
	// Prefix (subject "pool" only): the package-level calls made just before this history in the same
	// process — the pooled instances carry their state; a replay makes these calls first
	Prefix []Call `json:"prefix,omitempty"`
}

func factoryByName(name string) (Factory, bool) {
	for _, f := range Factories() {
		if f.Name == name {
			return f, true
		}
	}
	return Factory{}, false
}

type hfinding struct {
	class string
	what  string
	at    int
	known string
}

// checkHistory runs the calls on ONE instance; every call is compared with the same call on a fresh
// instance, every earlier result is re-inspected after every later call, and the input buffer is
// overwritten after each call.
func (run *Run) checkHistory(f Factory, calls []Call) (out []hfinding, evals int) {
	inst := f.New()
	outs := make([]Outcome, 0, len(calls))
	for i := range calls {
		c := &calls[i]
		o := inst.Exec(c)
		fr := f.Fresh().Exec(c)
		evals++
		if normAddr(o.Text) != normAddr(fr.Text) {
			hf := hfinding{class: "reuse:" + f.Name + "." + c.Op, at: i,
				what: fmt.Sprintf("call %d on the used instance: %s — on a fresh instance: %s", i, clip(o.Text), clip(fr.Text))}
			hf.known = run.explain(f, calls, i, &o, &fr)
			out = append(out, hf)
		}
		if o.Alias != "" {
			out = append(out, hfinding{class: "alias:" + f.Name + "." + c.Op, at: i,
				what: fmt.Sprintf("call %d: a returned value changed when the caller's input buffer was overwritten: %s", i, o.Alias)})
		}
		for j := range outs {
			if outs[j].Volatile || outs[j].Live == nil {
				continue
			}
			if now := Render(outs[j].Live); now != outs[j].LiveText {
				out = append(out, hfinding{class: "altered:" + f.Name + "." + calls[j].Op, at: i,
					what: fmt.Sprintf("the result of call %d (%s) was %s at return time and is %s after call %d (%s)",
						j, calls[j].Op, clip(outs[j].LiveText), clip(now), i, c.Op)})
				outs[j].LiveText = now // report once
			}
		}
		outs = append(outs, o)
	}
	return
}

// explain decides whether a difference from the fresh instance is one of the known findings.
func (run *Run) explain(f Factory, calls []Call, i int, used, fresh *Outcome) string {
	c := &calls[i]
	switch f.Name {
	case "oj.Writer":
		// C07-marshal-strict: an earlier oj.Marshal(_, wr) left strict set; the used writer answers
		// exactly as a writer that went through Marshal once
		if !lib.HasKnown(run.Known, "C07-marshal-strict") {
			return ""
		}
		marshalled := false
		for j := 0; j < i; j++ {
			if calls[j].Op == "pkg.Marshal" {
				marshalled = true
			}
		}
		if !marshalled {
			return ""
		}
		probe := &ojWriter{}
		probe.Exec(&Call{Op: "pkg.Marshal", Data: &DSpec{K: "nil"}})
		if po := probe.Exec(c); normAddr(po.Text) == normAddr(used.Text) {
			return "C07-marshal-strict"
		}
	case "pretty.Writer":
		// C07-pretty-sink: after Write(w, _) the writer keeps w: Encode/Marshal hand their bytes to it
		// and return nothing
		if !lib.HasKnown(run.Known, "C07-pretty-sink") {
			return ""
		}
		if c.Op != "Encode" && c.Op != "Marshal" {
			return ""
		}
		if used.Left == -2 {
			return ""
		}
		// the used Writer answers exactly as a fresh Writer whose only history is ONE Write call to an
		// io.Writer that accepts as many more bytes as the earlier one does: same result, same error,
		// same bytes offered to that io.Writer
		probe := &prettyWriter{}
		prime := Call{Op: "Write", Data: &DSpec{K: "nil"}, Opt: &OSpec{Sort: true, Width: 80, MaxDepth: 3}}
		if used.Left >= 0 {
			prime.Abort = fmt.Sprintf("wfail:%d", used.Left+len("null"))
		}
		if pr := probe.Exec(&prime); string(pr.Out) != "null" {
			return ""
		}
		po := probe.Exec(c)
		if normAddr(po.Text) == normAddr(used.Text) && string(po.Stray) == string(used.Stray) {
			return "C07-pretty-sink"
		}
	}
	return ""
}

func (run *Run) report(f Factory, calls []Call, hfs []hfinding, prefix []Call) {
	for _, hf := range hfs {
		h := History{Subject: f.Name, Calls: calls, Prefix: prefix}
		// shrink to a pair (the call and one earlier call) when that still shows the same class
		// (not for the pools: what they hold comes from the whole process, not from this history)
		if f.Name != "pool" && (hf.at >= 2 || len(calls) > hf.at+1) {
			for j := hf.at - 1; j >= 0; j-- {
				pair := []Call{calls[j], calls[hf.at]}
				sub, _ := run.checkHistory(f, pair)
				hit := false
				for _, s := range sub {
					if s.class == hf.class && s.known == hf.known {
						hit = true
						hf.what = s.what
					}
				}
				if hit {
					h.Calls = pair
					break
				}
			}
		}
		fd := lib.Finding{Kind: "violation", Class: hf.class, What: hf.what, Replay: Replay(h)}
		if hf.known != "" {
			fd.Kind, fd.KnownID = "known", hf.known
		}
		run.Rep.Add(fd)
	}
}

func callKey(c *Call) uint64 {
	js, _ := json.Marshal(c)
	h := fnv.New64a()
	h.Write(js)
	return h.Sum64()
}

// ---- fixed families ------------------------------------------------------------------------------

var followUps = []string{`1`, `"s"`, `[true,null]`, `{"a":1.5e3}`, ``, ` x`, "\n[1,\n2]\n"}

// partialBox: every fragment that leaves the machine in the middle of something, followed by every
// follow-up input, on every parser-like subject and entry point.
func (run *Run) partialBox(emit func(Factory, []Call)) int {
	n := 0
	type entry struct {
		subj string
		ops  []string
	}
	for _, e := range []entry{{"oj.Parser", []string{"Parse", "ParseReader"}}, {"gen.Parser", []string{"Parse", "ParseReader"}},
		{"oj.Validator", []string{"Validate", "ValidateReader"}}, {"oj.Tokenizer", []string{"Parse", "Load"}}} {
		f, _ := factoryByName(e.subj)
		for _, op1 := range e.ops {
			for _, frag := range genPartials {
				for fi, fu := range followUps {
					c1 := Call{Op: op1, In: hex.EncodeToString([]byte(frag))}
					c2 := Call{Op: e.ops[fi%len(e.ops)], In: hex.EncodeToString([]byte(fu)), OnlyOne: fi%2 == 0}
					if strings.Contains(op1, "Reader") || op1 == "Load" {
						c1.Chunks = []int{1}
					}
					emit(f, []Call{c1, c2})
					n++
				}
			}
		}
	}
	return n
}

// scenarioHistories are the histories the property and the design name explicitly.
type scen struct {
	Subject string `json:"subject"`
	Calls   []Call `json:"calls"`
}

func scenarioHistories() []scen {
	nilIn := &DSpec{K: "obj", KS: []string{"a"}, A: []DSpec{{K: "nilslice"}}}
	srt := &OSpec{Sort: true}
	one := hex.EncodeToString([]byte(`[1,2.5,"x"]`))
	big := hex.EncodeToString([]byte(`[12345678901234567890123, 1]`))
	return []scen{
		// oj.Marshal(data, wr) on the caller's Writer, then wr.JSON
		{"oj.Writer", []Call{{Op: "JSON", Data: nilIn, Opt: srt}, {Op: "pkg.Marshal", Data: &DSpec{K: "int", I: 1}, Opt: srt}, {Op: "JSON", Data: nilIn, Opt: srt}}},
		// pretty.Writer: Write, then Encode and Marshal
		{"pretty.Writer", []Call{{Op: "Write", Data: &DSpec{K: "arr", A: []DSpec{{K: "int", I: 1}}}, Opt: &OSpec{Sort: true, Width: 80, MaxDepth: 3}},
			{Op: "Encode", Data: &DSpec{K: "arr", A: []DSpec{{K: "int", I: 3}}}, Opt: &OSpec{Sort: true, Width: 80, MaxDepth: 3}},
			{Op: "Marshal", Data: &DSpec{K: "arr", A: []DSpec{{K: "int", I: 4}}}, Opt: &OSpec{Sort: true, Width: 80, MaxDepth: 3}}}},
		// a callback, then none; a conversion method, then none; a channel, then none
		{"oj.Parser", []Call{{Op: "Parse", In: one, Args: []string{"cb"}}, {Op: "Parse", In: one}}},
		{"oj.Parser", []Call{{Op: "Parse", In: big, Args: []string{"conv:f"}}, {Op: "Parse", In: big}}},
		{"oj.Parser", []Call{{Op: "Parse", In: big, Args: []string{"conv:s"}}, {Op: "ParseReader", In: big}}},
		{"oj.Parser", []Call{{Op: "Parse", In: one, Args: []string{"chan"}}, {Op: "Parse", In: hex.EncodeToString([]byte(`1 2`))}}},
		{"oj.Parser", []Call{{Op: "Parse", In: one, Args: []string{"cb"}, Abort: "cbpanic:0"}, {Op: "Parse", In: one}}},
		{"oj.Parser", []Call{{Op: "Unmarshal", In: one}, {Op: "Parse", In: one}}},
		{"oj.Parser", []Call{{Op: "Parse", In: hex.EncodeToString([]byte(`{"a":{"b":1}}`)), Reuse: true}, {Op: "Parse", In: hex.EncodeToString([]byte(`{"c":{"d":2}}`)), Reuse: false}}},
		{"gen.Parser", []Call{{Op: "Parse", In: one, Args: []string{"cb"}}, {Op: "Parse", In: one}}},
		{"gen.Parser", []Call{{Op: "ParseReader", In: one, Args: []string{"chan"}, Chunks: []int{1}}, {Op: "Parse", In: hex.EncodeToString([]byte(`1 2`))}}},
		{"oj.Tokenizer", []Call{{Op: "Parse", In: one, Abort: "tokpanic:2"}, {Op: "Parse", In: one}}},
		{"oj.Validator", []Call{{Op: "Validate", In: hex.EncodeToString([]byte("[\n\n\n")), OnlyOne: true}, {Op: "Validate", In: hex.EncodeToString([]byte("x")), OnlyOne: true}}},
		// pooled functions after a failing call
		{"pool", []Call{{Op: "oj.Parse", In: hex.EncodeToString([]byte(`{"a":[1,"x`))}, {Op: "oj.Parse", In: one}}},
		{"pool", []Call{{Op: "oj.Parse", In: one, Args: []string{"cb"}, Abort: "cbpanic:0"}, {Op: "oj.Parse", In: one}}},
		{"pool", []Call{{Op: "oj.JSON", Data: &DSpec{K: "arr", A: []DSpec{{K: "int", I: 1}, {K: "marsh", S: "panic"}}}}, {Op: "oj.JSON", Data: &DSpec{K: "int", I: 2}}}},
		{"pool", []Call{{Op: "oj.Marshal", Data: &DSpec{K: "marsh", S: "err"}}, {Op: "oj.Marshal", Data: nilIn}}},
		{"pool", []Call{{Op: "sen.String", Data: &DSpec{K: "arr", A: []DSpec{{K: "simp", S: "panic"}}}}, {Op: "sen.String", Data: &DSpec{K: "int", I: 2}}}},
		{"pool", []Call{{Op: "oj.Write", Data: &DSpec{K: "str", S: "0123456789abcdef"}, Abort: "wfail:3"}, {Op: "oj.Write", Data: &DSpec{K: "int", I: 2}}}},
	}
}

var cacheOrderCounter int
var cacheOrderMu sync.Mutex

// cacheOrder: the same write call (a struct with a nested struct field, OmitEmpty on) on types the
// caches have not seen, once as the first call and once after a call that wrote the nested type
// without OmitEmpty. Types are told apart by a struct tag only, so the text is the same.
func (run *Run) cacheOrder(pkg string) {
	cacheOrderMu.Lock()
	cacheOrderCounter++
	k := cacheOrderCounter
	cacheOrderMu.Unlock()
	mk := func(tag string) (reflect.Type, reflect.Type) {
		inner := reflect.StructOf([]reflect.StructField{
			{Name: "A", Type: reflect.TypeOf(""), Tag: reflect.StructTag(fmt.Sprintf(`v:"%s%d"`, tag, k))},
			{Name: "B", Type: reflect.TypeOf(0)},
		})
		outer := reflect.StructOf([]reflect.StructField{
			{Name: "In", Type: inner, Tag: reflect.StructTag(fmt.Sprintf(`v:"%s%d"`, tag, k))},
			{Name: "N", Type: reflect.TypeOf(0)},
		})
		return inner, outer
	}
	write := func(v any, omit bool) string {
		opt := ojg.DefaultOptions
		opt.Sort = true
		opt.OmitEmpty = omit
		if pkg == "sen" {
			return sen.String(v, &opt)
		}
		return oj.JSON(v, &opt)
	}
	_, outerA := mk(pkg + "a")
	innerB, outerB := mk(pkg + "b")
	cold := write(reflect.New(outerA).Elem().Interface(), true)
	plainInner := write(reflect.New(innerB).Elem().Interface(), false)
	warm := write(reflect.New(outerB).Elem().Interface(), true)
	run.Rep.AddEval(2, 1)
	run.Rep.Count("c07.cacheorder."+pkg, 1)
	// the other order: the nested type first written WITH OmitEmpty, then the outer type without
	_, outerC := mk(pkg + "c")
	innerD, outerD := mk(pkg + "d")
	cold2 := write(reflect.New(outerC).Elem().Interface(), false)
	omitInner := write(reflect.New(innerD).Elem().Interface(), true)
	warm2 := write(reflect.New(outerD).Elem().Interface(), false)
	run.Rep.AddEval(2, 1)
	if cold2 != warm2 {
		run.Rep.Add(lib.Finding{Kind: "violation", Class: "cacheorder-rev:" + pkg,
			What: fmt.Sprintf("%s: writing a struct with a nested struct field WITHOUT OmitEmpty gives %s as the first call and %s after a call that wrote the nested type with OmitEmpty (%s)",
				pkg, cold2, warm2, omitInner),
			Replay: map[string]any{"scenario": "cacheorder", "pkg": pkg}})
	}
	if cold == warm {
		return
	}
	fd := lib.Finding{Kind: "violation", Class: "cacheorder:" + pkg,
		What: fmt.Sprintf("%s: writing a struct with a nested struct field under OmitEmpty gives %s as the first call and %s after a call that wrote the nested type without OmitEmpty (%s)",
			pkg, cold, warm, plainInner),
		Replay: map[string]any{"scenario": "cacheorder", "pkg": pkg}}
	// finding C07-struct-cache-omitempty (fixed by 8169704; the predicate only applies while the entry is
	// listed as known): the nested plan is the one cached WITHOUT OmitEmpty, nothing else differs
	emptyInner := "{}"
	if lib.HasKnown(run.Known, "C07-struct-cache-omitempty") && strings.Count(cold, emptyInner) == 1 &&
		strings.Replace(cold, emptyInner, plainInner, 1) == warm {
		fd.Kind, fd.KnownID = "known", "C07-struct-cache-omitempty"
	}
	run.Rep.Add(fd)
}

// RunC07 is the property run.
func (run *Run) RunC07() {
	rep := run.Rep
	rep.Rule = "C07: every call of a history on one instance (or through the pooled package-level functions) is compared with the same call on a fresh instance; " +
		"results are re-inspected after every later call (unless Reuse or a buffer-returning API documents otherwise); the caller's input buffer is overwritten after each call"
	type job struct {
		f     Factory
		calls []Call
	}
	jobs := make(chan job, 256)
	poolJobs := make(chan job, 256) // histories on the pools run one at a time: concurrent use is C08
	var wg sync.WaitGroup
	var seenMu sync.Mutex
	seen := map[uint64]struct{}{}
	for w := 0; w <= run.Workers; w++ {
		wg.Add(1)
		src := jobs
		if w == run.Workers {
			src = poolJobs
		}
		go func() {
			defer wg.Done()
			var recent []Call // the pool worker's last calls
			for j := range src {
				var prefix []Call
				if j.f.Name == "pool" {
					prefix = append(prefix, recent...)
					recent = append(recent, j.calls...)
					if len(recent) > 16 {
						recent = append([]Call{}, recent[len(recent)-16:]...)
					}
				}
				hfs, evals := run.checkHistory(j.f, j.calls)
				distinct := int64(0)
				seenMu.Lock()
				for i := range j.calls {
					k := callKey(&j.calls[i])
					if _, dup := seen[k]; !dup {
						seen[k] = struct{}{}
						distinct++
					}
				}
				seenMu.Unlock()
				rep.AddEval(int64(evals), distinct)
				if len(hfs) > 0 {
					run.report(j.f, j.calls, hfs, prefix)
				}
			}
		}()
	}
	emit := func(f Factory, calls []Call) {
		if f.Name == "pool" {
			poolJobs <- job{f, calls}
		} else {
			jobs <- job{f, calls}
		}
	}

	// 1. the histories named by the property and the design
	for _, h := range scenarioHistories() {
		if f, ok := factoryByName(h.Subject); ok {
			emit(f, h.Calls)
			rep.Count("c07.scenario", 1)
		}
	}
	// 2. exhaustive box: fragment × follow-up × entry point
	n := run.partialBox(emit)
	rep.Count("c07.partial_box", int64(n))
	rep.Exhaustive = append(rep.Exhaustive, fmt.Sprintf("%d fragments x %d follow-up inputs x 8 entry points of the four strict-JSON front-ends (two-call histories)", len(genPartials), len(followUps)))
	run.mapPoolStream(emit) // 2b. the Reuse map pool p.maps / p.mi (mappool.go)
	// 3. random histories
	per := 4000
	if run.Tier == "thorough" {
		per = 60000
	}
	rng := lib.NewRng(run.Seed)
	for _, f := range Factories() {
		fr := rng.Fork(len(f.Name))
		for h := 0; h < per; h++ {
			nc := 2 + fr.Intn(5)
			calls := make([]Call, nc)
			for i := range calls {
				calls[i] = f.Gen(fr)
				rep.Count("c07.calls."+f.Name, 1)
				if calls[i].Abort != "" {
					rep.Count("c07.aborted_calls", 1)
				}
			}
			emit(f, calls)
		}
		rep.Count("c07.histories."+f.Name, int64(per))
	}
	close(jobs)
	close(poolJobs)
	wg.Wait()
	// 4. the struct-info caches: the same call on types the caches have not seen, in two orders
	rounds := 3
	if run.Tier == "thorough" {
		rounds = 20
	}
	for i := 0; i < rounds; i++ {
		run.cacheOrder("oj")
		run.cacheOrder("sen")
	}
	for _, h := range scenarioHistories()[:2] {
		rep.Sample(h)
	}
}

// ReplayC07 re-runs one recorded case.
func (run *Run) ReplayC07(path string) error {
	data, err := os.ReadFile(path)
	if err != nil {
		return err
	}
	var fd struct {
		Replay json.RawMessage `json:"replay"`
	}
	if err := json.Unmarshal(data, &fd); err != nil {
		return err
	}
	var sc struct {
		Scenario string `json:"scenario"`
		Pkg      string `json:"pkg"`
	}
	_ = json.Unmarshal(fd.Replay, &sc)
	if sc.Scenario == "cacheorder" {
		run.cacheOrder(sc.Pkg)
		return nil
	}
	var h History
	if err := json.Unmarshal(fd.Replay, &h); err != nil {
		return err
	}
	f, ok := factoryByName(h.Subject)
	if !ok {
		return fmt.Errorf("unknown subject %q", h.Subject)
	}
	if f.Name == "pool" {
		// one P, so that the pools hand back the instances the prefix calls used
		defer runtime.GOMAXPROCS(runtime.GOMAXPROCS(1))
		warm := f.New()
		for i := range h.Prefix {
			warm.Exec(&h.Prefix[i])
		}
	}
	hfs, evals := run.checkHistory(f, h.Calls)
	run.Rep.AddEval(int64(evals), int64(evals))
	run.report(f, h.Calls, hfs, h.Prefix)
	for _, hf := range hfs {
		fmt.Printf("replay: %s: %s\n", hf.class, hf.what)
	}
	return nil
}
