package reuse

import (
	"encoding/hex"
	"fmt"
	"strings"

	"verif/harness/lib"
)

// Stream "mappool" (C07): the Reuse map pool (p.maps / p.mi) of oj.Parser and gen.Parser, modelled in
// lean/OjgVerif/Reuse/MapPool.lean. Every history runs on ONE instance with Reuse on; its calls hold
// documents with several objects (nested and siblings), the later ones with MORE and with FEWER
// objects than the earlier ones, and multi-document inputs delivered through callbacks. The oracle is
// the one C07 names (checkHistory): every call is compared with the same call on a fresh instance —
// results of Parse read after the call, callback documents rendered at the moment they are delivered.
// (sen.Parser has the same code; its histories are C07sen.)

// mapPoolDocs: inputs with a known number of objects per document.
var mapPoolDocs = []struct {
	in    string
	multi bool // several documents: callbacks see each of them
}{
	{`{"k":"v"}`, false},                                    // 1
	{`{"a":{"b":1}}`, false},                                // 2 nested
	{`[{"a":1},{"b":2}]`, false},                            // 2 siblings
	{`{"a":{"b":{"c":3}},"z":0}`, false},                    // 3 nested
	{`[{"a":{"x":1}},{"b":2},{"c":[{"d":4}]}]`, false},      // 5 mixed
	{`{"p":{"q":1},"r":{"s":2},"t":{"u":{"v":3}}}`, false},  // 5 siblings below one
	{`{"a":{"b":1}} {"c":2} [{"d":{"e":3}},{"f":4}]`, true}, // 2, 1, 3
	{`{"a":1} {"b":{"c":{"d":2}}}`, true},                   // 1, 3
	{`[{"a":1},{"b":2},{"c":3}] {"d":{"e":5}}`, true},       // 3, 2
}

func mapPoolCall(op, in string, reuse bool, args []string, chunks []int) Call {
	c := Call{Op: op, In: hex.EncodeToString([]byte(in)), Reuse: reuse}
	c.Args = append(c.Args, args...)
	if op == "ParseReader" {
		c.Chunks = chunks
	}
	return c
}

// genObjDoc writes a random document; *n counts its objects.
func genObjDoc(r *lib.Rng, sb *strings.Builder, depth int, n *int) {
	switch k := r.Intn(10); {
	case depth <= 0 || k < 2:
		switch r.Intn(4) {
		case 0:
			fmt.Fprintf(sb, "%d", r.Intn(1000))
		case 1:
			fmt.Fprintf(sb, `"s%d"`, r.Intn(100))
		case 2:
			sb.WriteString("true")
		default:
			*n++
			fmt.Fprintf(sb, `{"l%d":%d}`, r.Intn(9), r.Intn(100))
		}
	case k < 4:
		sb.WriteByte('[')
		m := 1 + r.Intn(3)
		for i := 0; i < m; i++ {
			if i > 0 {
				sb.WriteByte(',')
			}
			genObjDoc(r, sb, depth-1, n)
		}
		sb.WriteByte(']')
	default:
		*n++
		sb.WriteByte('{')
		m := r.Intn(4)
		for i := 0; i < m; i++ {
			if i > 0 {
				sb.WriteByte(',')
			}
			fmt.Fprintf(sb, `"k%d":`, i)
			genObjDoc(r, sb, depth-1, n)
		}
		sb.WriteByte('}')
	}
}

func genMapPoolInput(r *lib.Rng) (string, bool) {
	docs := 1
	if r.Intn(3) == 0 {
		docs = 2 + r.Intn(2)
	}
	var sb strings.Builder
	for d := 0; d < docs; d++ {
		if d > 0 {
			sb.WriteByte(' ')
		}
		for try := 0; ; try++ {
			var one strings.Builder
			n := 0
			genObjDoc(r, &one, 1+r.Intn(4), &n)
			if n >= 2 || try > 20 {
				sb.WriteString(one.String())
				break
			}
		}
	}
	return sb.String(), docs > 1
}

// mapPoolStream emits the histories of the stream.
func (run *Run) mapPoolStream(emit func(Factory, []Call)) {
	rep := run.Rep
	total := 0
	for _, subj := range []string{"oj.Parser", "gen.Parser"} {
		f, ok := factoryByName(subj)
		if !ok {
			continue
		}
		send := func(calls []Call) {
			emit(f, calls)
			total++
			rep.Count("c07.mappool."+subj, 1)
		}
		argsFor := func(multi bool, variant int) []string {
			if multi || variant%3 == 2 {
				if variant%2 == 0 {
					return []string{"cb"}
				}
				return []string{"cbbool"}
			}
			return nil
		}
		// 1. every ordered pair of the fixed documents, through both entry points
		for i, a := range mapPoolDocs {
			for j, b := range mapPoolDocs {
				for v, ops := range [][2]string{{"Parse", "Parse"}, {"ParseReader", "ParseReader"}, {"Parse", "ParseReader"}} {
					var chunks []int
					if v == 1 {
						chunks = []int{1}
					} else if v == 2 {
						chunks = []int{3, 5}
					}
					send([]Call{
						mapPoolCall(ops[0], a.in, true, argsFor(a.multi, i+j+v), chunks),
						mapPoolCall(ops[1], b.in, true, argsFor(b.multi, i+2*j+v), chunks),
					})
				}
			}
		}
		// 2. longer histories: grow, shrink, grow; Reuse switched off and on again; multi-document calls in between
		d := mapPoolDocs
		cb := []string{"cb"}
		for _, op := range []string{"Parse", "ParseReader"} {
			ch := []int{2}
			send([]Call{mapPoolCall(op, d[4].in, true, nil, ch), mapPoolCall(op, d[1].in, true, nil, ch), mapPoolCall(op, d[5].in, true, nil, ch), mapPoolCall(op, d[0].in, true, nil, ch)})
			send([]Call{mapPoolCall(op, d[0].in, true, nil, ch), mapPoolCall(op, d[4].in, true, nil, ch), mapPoolCall(op, d[2].in, true, nil, ch)})
			send([]Call{mapPoolCall(op, d[6].in, true, cb, ch), mapPoolCall(op, d[3].in, true, nil, ch), mapPoolCall(op, d[7].in, true, cb, ch), mapPoolCall(op, d[8].in, true, cb, ch)})
			send([]Call{mapPoolCall(op, d[3].in, true, nil, ch), mapPoolCall(op, d[1].in, false, nil, ch), mapPoolCall(op, d[3].in, true, nil, ch), mapPoolCall(op, d[5].in, true, nil, ch)})
			// a call that fails in the middle of a document (index left behind), then full ones
			send([]Call{mapPoolCall(op, `{"a":{"b":{"c":`, true, nil, ch), mapPoolCall(op, d[4].in, true, nil, ch), mapPoolCall(op, d[1].in, true, nil, ch)})
			send([]Call{mapPoolCall(op, d[8].in, true, cb, ch), mapPoolCall(op, `[{"a":1},{"b":2},{"c":}]`, true, nil, ch), mapPoolCall(op, d[5].in, true, nil, ch)})
		}
		// 3. random histories of 2-4 calls, every document with at least two objects
		per := 400
		if run.Tier == "thorough" {
			per = 6000
		}
		r := lib.NewRng(run.Seed ^ 0x6d6170706f6f6c).Fork(len(subj))
		for h := 0; h < per; h++ {
			nc := 2 + r.Intn(3)
			calls := make([]Call, nc)
			for k := range calls {
				in, multi := genMapPoolInput(r)
				op := lib.Pick(r, []string{"Parse", "ParseReader"})
				var chunks []int
				if op == "ParseReader" && r.Bool() {
					chunks = []int{1 + r.Intn(7)}
				}
				calls[k] = mapPoolCall(op, in, r.Intn(8) != 0, argsFor(multi, r.Intn(6)), chunks)
			}
			send(calls)
		}
	}
	rep.Count("c07.mappool", int64(total))
}
