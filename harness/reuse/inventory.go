package reuse

import (
	"fmt"
	"reflect"
	"sort"
	"strings"
	"sync"

	"github.com/ohler55/ojg"
	"github.com/ohler55/ojg/alt"
	"github.com/ohler55/ojg/asm"
	"github.com/ohler55/ojg/gen"
	"github.com/ohler55/ojg/jp"
	"github.com/ohler55/ojg/oj"
	"github.com/ohler55/ojg/pretty"
	"github.com/ohler55/ojg/sen"

	"verif/harness/lib"
	"verif/harness/reuse/twin"
)

// ---- shared-object inventory -------------------------------------------------------------------------
//
// C08 lets callers SHARE certain objects ("shared expressions, options and struct types"; "a recomposer
// whose types were registered beforehand") and use them at the same time on their OWN data. The
// inventory lists every kind of such object with EVERY read-only entry point it has. Oracle (the
// comparison the property names): a call through the shared object returns what the same call returns
// on an object nobody else has used ("run alone"), whatever entry point another caller used before on
// OTHER data — every ordered pair of entry points, deterministically, on one goroutine — and when all
// callers run at once (stress, also under the race detector). The shared object's fingerprint
// (unexported fields included) must not change, and neither must its IDENTITY list (the addresses of the
// pointers, maps and slices inside it): a write that stores an equal value is still a write.

// invEntry is one read-only entry point: it runs on caller k's own data and renders everything the
// caller can observe (result, error, panic, and its own data afterwards where the call mutates it).
type invEntry struct {
	name string
	call func(obj any, k int) string
}

type invObject struct {
	kind    string
	name    string
	mk      func() any // a new object, set up (parsed / compiled / registered) as the callers would share it
	entries []invEntry
	// print is the object's fingerprint (default: Fingerprint, unexported fields included)
	print func(any) string
	// norm, if set, is a coarser fingerprint: a change of print that leaves norm alone is the deviation
	// recorded as knownID (decided per case, see PlanLazyCompileID), any other change is a violation
	norm    func(any) string
	knownID string
}

func (ob *invObject) fp(o any) string {
	if ob.print != nil {
		return ob.print(o)
	}
	return Fingerprint(o)
}

// PlanLazyCompileID: finding on the unchanged tree. asm.(*Plan).Execute compiles function lists that sit
// inside a plain list argument (the [test value] clauses of cond) when they are FIRST evaluated:
// evalValue builds a Fn whose Args ALIAS the plan's own slice (af.Args = tv[1:]) and af.compile()
// replaces the "$…"/"@…" strings in it by parsed jp.Expr values — a write into the shared compiled plan
// during evaluation, unsynchronised (data race when two goroutines execute one plan). The value written
// is the same for every caller, so results do not differ.
const PlanLazyCompileID = "C08-asm-plan-lazy-compile"

// planPrint renders a compiled plan. raw: a parsed path is told apart from the string it came from;
// norm: both are rendered as the path text, and a function list as the Fn it compiles to (so only the
// lazy compile of a function list / path string is invisible).
func planPrint(v any, norm bool) string {
	var sb strings.Builder
	var walk func(v any, depth int)
	walk = func(v any, depth int) {
		if depth > 40 {
			sb.WriteString("<deep>")
			return
		}
		switch tv := v.(type) {
		case *asm.Plan:
			if tv == nil {
				sb.WriteString("nil-plan")
				return
			}
			walk(&tv.Fn, depth+1)
		case *asm.Fn:
			if norm {
				fmt.Fprintf(&sb, "(fn %s", tv.Name)
			} else {
				fmt.Fprintf(&sb, "(fn %s eval:%v compile:%v", tv.Name, tv.Eval != nil, tv.Compile != nil)
			}
			for _, a := range tv.Args {
				sb.WriteByte(' ')
				walk(a, depth+1)
			}
			sb.WriteByte(')')
		case []any:
			if norm && len(tv) > 0 {
				// a function list and the Fn it compiles to are the same thing
				if name, _ := tv[0].(string); name != "" && asm.NewFn(name) != nil {
					fmt.Fprintf(&sb, "(fn %s", name)
					for _, a := range tv[1:] {
						sb.WriteByte(' ')
						walk(a, depth+1)
					}
					sb.WriteByte(')')
					return
				}
			}
			sb.WriteByte('[')
			for _, a := range tv {
				walk(a, depth+1)
				sb.WriteByte(' ')
			}
			sb.WriteByte(']')
		case jp.Expr:
			if norm {
				fmt.Fprintf(&sb, "%q", tv.String())
			} else {
				fmt.Fprintf(&sb, "expr:%s:%s", tv.String(), Fingerprint(tv))
			}
		case string:
			if norm && len(tv) > 0 && (tv[0] == '$' || tv[0] == '@') {
				if x, err := jp.ParseString(tv); err == nil {
					fmt.Fprintf(&sb, "%q", x.String())
					return
				}
			}
			fmt.Fprintf(&sb, "%q", tv)
		default:
			sb.WriteString(Render(v))
		}
	}
	walk(v, 0)
	return sb.String()
}

func invGuard(f func() string) (out string) {
	defer func() {
		if r := recover(); r != nil {
			out = "P=" + panicText(r)
		}
	}()
	return f()
}

// ---- caller-owned documents: every caller's document gives other answers to $-operands -----------------

func invDoc(k int) any {
	want := int64(k%3 + 1)
	pre := fmt.Sprintf("c%d-", k)
	item := func(v int64) any {
		var subs []any
		for x := int64(1); x <= v; x++ {
			subs = append(subs, map[string]any{"x": x, "y": 10*x + v, "n": x % 2})
		}
		tags := []any{}
		for x := int64(0); x < v; x++ {
			tags = append(tags, fmt.Sprintf("t%d", (x+int64(k))%3+1))
		}
		return map[string]any{"v": v, "name": fmt.Sprintf("%s%d", pre, v), "tags": tags, "sub": subs, "vals": []any{v, v + 1}}
	}
	return map[string]any{
		"want": want, "min": want - 1, "max": want + 1, "tag": fmt.Sprintf("t%d", k%3+1),
		"items": []any{item(1), item(2), item(3)},
		"a":     map[string]any{"b": pre + "b", "v": want},
	}
}

func invNode(k int) gen.Node { return toNode(invDoc(k)) }

func renderNodes(ns ...gen.Node) string {
	var parts []string
	for _, n := range ns {
		if n == nil {
			parts = append(parts, "nil")
		} else {
			parts = append(parts, Render(n.Simplify()))
		}
	}
	return "[" + strings.Join(parts, " ") + "]"
}

func invItem(k int) any { return invDoc(k).(map[string]any)["items"].([]any)[k%3] }

// InvExprTexts: paths with $ and @ operands, nested filters, several filters, descent, unions.
var InvExprTexts = []string{
	"$.items[?(@.v == $.want)].name",
	"$.items[?(@.v > $.min && @.v < $.max)]",
	"$.items[?(@.sub[?(@.x == $.want)].y > 20)].name",
	"$.items[?(@.v >= $.want)].sub[?(@.x == $.want)].y",
	"$..[?(@.v == $.want)].name",
	"$.items[?(@.tags[*] == $.tag)].v",
	"$.items[?(@.name == 'zz' || @.v == $.min)]['name','v']",
	"@.items[?(@.v == $.want)].name",
	"$.items[*].sub[?(@.y > $.items[1].sub[0].y)].y",
	"$.items[?(@.sub[?(@.x == $.items[?(@.v == $.want)].v)].y > 0)].name",
	"$.items[?(@.v == 2)].name",
	"$.items[1:].name",
	"$.a.b",
}

func invExprEntries() []invEntry {
	x := func(o any) jp.Expr { return o.(jp.Expr) }
	after := func(d any, s string) string { return s + " DATA=" + Render(d) }
	mod := func(e any) (any, bool) {
		if s, ok := e.(string); ok {
			return s + "!", true
		}
		return []any{e}, true
	}
	return []invEntry{
		{"Get", func(o any, k int) string { return Render(x(o).Get(invDoc(k))) }},
		{"First", func(o any, k int) string { return Render(x(o).First(invDoc(k))) }},
		{"FirstFound", func(o any, k int) string {
			v, ok := x(o).FirstFound(invDoc(k))
			return fmt.Sprintf("%s %v", Render(v), ok)
		}},
		{"Has", func(o any, k int) string { return fmt.Sprint(x(o).Has(invDoc(k))) }},
		{"Locate", func(o any, k int) string { return fmt.Sprint(x(o).Locate(invDoc(k), 0)) }},
		{"Locate1", func(o any, k int) string { return fmt.Sprint(x(o).Locate(invDoc(k), 1)) }},
		{"Walk", func(o any, k int) string {
			var w []string
			x(o).Walk(invDoc(k), func(path jp.Expr, nodes []any) { w = append(w, path.String()+"="+Render(nodes[len(nodes)-1])) })
			return strings.Join(w, ";")
		}},
		{"GetNodes", func(o any, k int) string { return renderNodes(x(o).GetNodes(invNode(k))...) }},
		{"FirstNode", func(o any, k int) string { return renderNodes(x(o).FirstNode(invNode(k))) }},
		{"Set", func(o any, k int) string { d := invDoc(k); err := x(o).Set(d, "SET"); return after(d, errText(err)) }},
		{"SetOne", func(o any, k int) string {
			d := invDoc(k)
			err := x(o).SetOne(d, int64(k))
			return after(d, errText(err))
		}},
		{"Del", func(o any, k int) string { d := invDoc(k); err := x(o).Del(d); return after(d, errText(err)) }},
		{"DelOne", func(o any, k int) string { d := invDoc(k); err := x(o).DelOne(d); return after(d, errText(err)) }},
		{"Remove", func(o any, k int) string {
			d := invDoc(k)
			r, err := x(o).Remove(d)
			return after(d, Render(r)+errText(err))
		}},
		{"RemoveOne", func(o any, k int) string {
			d := invDoc(k)
			r, err := x(o).RemoveOne(d)
			return after(d, Render(r)+errText(err))
		}},
		{"Modify", func(o any, k int) string {
			d := invDoc(k)
			r, err := x(o).Modify(d, mod)
			return after(d, Render(r)+errText(err))
		}},
		{"ModifyOne", func(o any, k int) string {
			d := invDoc(k)
			r, err := x(o).ModifyOne(d, mod)
			return after(d, Render(r)+errText(err))
		}},
		{"MustSet", func(o any, k int) string {
			d := invDoc(k)
			return after(d, invGuard(func() string { x(o).MustSet(d, "MS"); return "-" }))
		}},
		{"MustSetOne", func(o any, k int) string {
			d := invDoc(k)
			return after(d, invGuard(func() string { x(o).MustSetOne(d, "M1"); return "-" }))
		}},
		{"MustDel", func(o any, k int) string {
			d := invDoc(k)
			return after(d, invGuard(func() string { x(o).MustDel(d); return "-" }))
		}},
		{"MustDelOne", func(o any, k int) string {
			d := invDoc(k)
			return after(d, invGuard(func() string { x(o).MustDelOne(d); return "-" }))
		}},
		{"MustRemove", func(o any, k int) string {
			d := invDoc(k)
			return after(d, invGuard(func() string { return Render(x(o).MustRemove(d)) }))
		}},
		{"MustRemoveOne", func(o any, k int) string {
			d := invDoc(k)
			return after(d, invGuard(func() string { return Render(x(o).MustRemoveOne(d)) }))
		}},
		{"MustModify", func(o any, k int) string {
			d := invDoc(k)
			return after(d, invGuard(func() string { return Render(x(o).MustModify(d, mod)) }))
		}},
		{"MustModifyOne", func(o any, k int) string {
			d := invDoc(k)
			return after(d, invGuard(func() string { return Render(x(o).MustModifyOne(d, mod)) }))
		}},
		{"String", func(o any, k int) string { return x(o).String() }},
		{"BracketString", func(o any, k int) string { return x(o).BracketString() }},
		{"Append", func(o any, k int) string { return string(x(o).Append(make([]byte, 0, k), k%2 == 0)) }},
		{"Normal", func(o any, k int) string { return fmt.Sprint(x(o).Normal()) }},
	}
}

// InvScriptTexts: scripts with @ and $ operands and a filter inside a path operand.
var InvScriptTexts = []string{
	"(@.v == $.vals[0])", "(@.sub[?(@.x == $.v)].y > 20)", "(@.v > 1 && @.name != 'x')", "(@.tags[*] == 't1')", "(length(@.sub) == @.v)",
}

func invScriptEntries() []invEntry {
	s := func(o any) *jp.Script { return o.(*jp.Script) }
	return []invEntry{
		{"Match", func(o any, k int) string { return fmt.Sprint(s(o).Match(invItem(k))) }},
		{"Eval", func(o any, k int) string {
			return Render(s(o).Eval([]any{}, invDoc(k).(map[string]any)["items"]))
		}},
		{"EvalMap", func(o any, k int) string { return Render(s(o).Eval(map[string]any{}, invItem(k))) }},
		{"String", func(o any, k int) string { return s(o).String() }},
		{"Append", func(o any, k int) string { return string(s(o).Append(make([]byte, 0, k))) }},
		{"Inspect", func(o any, k int) string { return Fingerprint(s(o).Inspect()) }},
	}
}

// a path built with the fragment constructors around ONE shared *Filter
func invFilterEntries() []invEntry {
	f := func(o any) *jp.Filter { return o.(*jp.Filter) }
	path := func(o any) jp.Expr { return jp.Expr{jp.Root('$'), jp.Child("items"), f(o), jp.Child("name")} }
	return []invEntry{
		{"in-path.Get", func(o any, k int) string { return Render(path(o).Get(invDoc(k))) }},
		{"in-path.First", func(o any, k int) string { return Render(path(o).First(invDoc(k))) }},
		{"in-path.Locate", func(o any, k int) string { return fmt.Sprint(path(o).Locate(invDoc(k), 0)) }},
		{"in-path.Walk", func(o any, k int) string {
			var w []string
			path(o).Walk(invDoc(k), func(p jp.Expr, nodes []any) { w = append(w, p.String()+"="+Render(nodes[len(nodes)-1])) })
			return strings.Join(w, ";")
		}},
		{"in-path.Del", func(o any, k int) string {
			d := invDoc(k)
			err := path(o).Del(d)
			return errText(err) + " DATA=" + Render(d)
		}},
		{"in-path.Remove", func(o any, k int) string {
			d := invDoc(k)
			r, err := jp.Expr{jp.Root('$'), jp.Child("items"), f(o)}.Remove(d)
			return Render(r) + errText(err)
		}},
		{"Match", func(o any, k int) string { return fmt.Sprint(f(o).Match(invItem(k))) }},
		{"String", func(o any, k int) string { return f(o).String() }},
		{"Append", func(o any, k int) string { return string(f(o).Append(make([]byte, 0, k), true, false)) }},
		{"Eval", func(o any, k int) string { return Render(f(o).Eval([]any{}, invDoc(k).(map[string]any)["items"])) }},
	}
}

// ---- asm.Plan --------------------------------------------------------------------------------------------

func invPlan() any {
	return asm.NewPlan([]any{
		[]any{"set", "$.asm.n", []any{"sum", "$.src.want", "$.src.max"}},
		[]any{"set", "$.asm.names", []any{"get", "$.src.items[?(@.v == $.src.want)].name"}},
		[]any{"set", "$.asm.first", []any{"getall", "$.src.items[?(@.v >= $.src.want)].v"}},
		[]any{"set", "$.asm.cond", []any{"cond", []any{[]any{"and", []any{"gt", "$.src.want", 1}, []any{"lt", "$.src.want", 9}}, "big"}, []any{true, "small"}}},
		[]any{"each", "$.src.items[*]", []any{"set", "@.seen", []any{"get", "$.src.tag"}}},
	})
}

func invPlanEntries() []invEntry {
	return []invEntry{
		{"Execute", func(o any, k int) string {
			root := map[string]any{"src": invDoc(k)}
			err := o.(*asm.Plan).Execute(root)
			return errText(err) + " ROOT=" + Render(root)
		}},
		{"Execute/local", func(o any, k int) string {
			root := map[string]any{"src": invDoc(k + 1), "asm": map[string]any{"kept": int64(k)}}
			err := o.(*asm.Plan).Execute(root)
			return errText(err) + " ASM=" + Render(root["asm"])
		}},
	}
}

// ---- *alt.Recomposer with types registered beforehand -------------------------------------------------------

// RTwin shares its short name with twin.RTwin; it is registered FIRST and with a RecomposeFunc.
type RTwin struct {
	Level int
	Via   string
}

// RAnyTwin shares its short name with twin.RAnyTwin; registered first with a RecomposeAnyFunc.
type RAnyTwin struct {
	N   int
	Via string
}

// RHolder has fields of both twins.
type RHolder struct {
	Mine  RTwin
	Other *twin.RTwin
	List  []RTwin
}

func invTwinFunc(m map[string]any) (any, error) {
	o := &RTwin{Via: "func"}
	switch lv := m["level"].(type) {
	case int64:
		o.Level = int(lv)
	case int:
		o.Level = lv
	}
	return o, nil
}

func invAnyFunc(v any) (any, error) {
	m, _ := v.(map[string]any)
	n, _ := m["n"].(int64)
	return &RAnyTwin{N: int(n), Via: "anyfunc"}, nil
}

func fullName(v any) string {
	t := reflect.TypeOf(v)
	for t.Kind() == reflect.Ptr {
		t = t.Elem()
	}
	return t.PkgPath() + "/" + t.Name()
}

func invRecomposer() any {
	r, err := alt.NewRecomposer("^", map[any]alt.RecomposeFunc{&RBoard{}: nil, &RInner{}: nil})
	if err != nil {
		panic(err)
	}
	must := func(err error) {
		if err != nil {
			panic(err)
		}
	}
	// all types are registered beforehand; the twins of package twin come later and own the short names
	must(r.RegisterComposer(&RTwin{}, invTwinFunc))
	must(r.RegisterAnyComposer(&RAnyTwin{}, invAnyFunc))
	must(r.RegisterComposer(&twin.RTwin{}, nil))
	must(r.RegisterComposer(&twin.RAnyTwin{}, nil))
	must(r.RegisterComposer(&RHolder{}, nil))
	return r
}

func invRecomposerEntries() []invEntry {
	r := func(o any) *alt.Recomposer { return o.(*alt.Recomposer) }
	res := func(v any, err error) string {
		return Render(alt.Decompose(v, &ojg.Options{CreateKey: "^", FullTypePath: true})) + " E=" + errText(err)
	}
	return []invEntry{
		{"Recompose{^:full RTwin}", func(o any, k int) string {
			return res(r(o).Recompose(map[string]any{"^": fullName(RTwin{}), "level": int64(k)}))
		}},
		{"Recompose{^:short RTwin}", func(o any, k int) string {
			return res(r(o).Recompose(map[string]any{"^": "RTwin", "level": int64(k), "note": "n"}))
		}},
		{"Recompose(&RTwin)", func(o any, k int) string {
			var mine RTwin
			return res(r(o).Recompose(map[string]any{"level": int64(k)}, &mine))
		}},
		{"Recompose(&twin.RTwin)", func(o any, k int) string {
			var other twin.RTwin
			return res(r(o).Recompose(map[string]any{"level": int64(k), "note": "x"}, &other))
		}},
		{"Recompose([]RTwin)", func(o any, k int) string {
			return res(r(o).Recompose([]any{map[string]any{"level": int64(k)}, map[string]any{"level": int64(k + 1)}}, []RTwin{}))
		}},
		{"Recompose(&RHolder)", func(o any, k int) string {
			var h RHolder
			return res(r(o).Recompose(map[string]any{"mine": map[string]any{"level": int64(k)}, "other": map[string]any{"level": int64(k)},
				"list": []any{map[string]any{"level": int64(k)}}}, &h))
		}},
		{"Recompose{^:full RAnyTwin}", func(o any, k int) string {
			return res(r(o).Recompose(map[string]any{"^": fullName(RAnyTwin{}), "n": int64(k)}))
		}},
		{"Recompose(&RAnyTwin)", func(o any, k int) string {
			var a RAnyTwin
			return res(r(o).Recompose(map[string]any{"n": int64(k)}, &a))
		}},
		{"Recompose(&twin.RAnyTwin)", func(o any, k int) string {
			var a twin.RAnyTwin
			return res(r(o).Recompose(map[string]any{"n": int64(k)}, &a))
		}},
		{"Recompose{list of ^}", func(o any, k int) string {
			return res(r(o).Recompose([]any{map[string]any{"^": fullName(RTwin{}), "level": int64(k)}, map[string]any{"^": fullName(twin.RTwin{}), "level": int64(k)},
				map[string]any{"^": "RAnyTwin", "n": int64(k)}}))
		}},
		{"MustRecompose(&RBoard)", func(o any, k int) string {
			return invGuard(func() string { var b RBoard; return res(r(o).MustRecompose(boardData(int64(k)), &b), nil) })
		}},
		{"Recompose{^:RInner}", func(o any, k int) string {
			return res(r(o).Recompose(map[string]any{"^": "RInner", "a": "s", "b": int64(k)}))
		}},
	}
}

// ---- ojg.Options and ojg.Converter ---------------------------------------------------------------------------

func invOptions() any {
	o := ojg.GoOptions
	o.Sort = true
	o.CreateKey = "^"
	o.TimeMap = true
	o.OmitNil = true
	o.Indent = 1
	return &o
}

func invOptData(k int) any {
	return []any{&RInner{A: fmt.Sprintf("k%d", k), B: k}, invDoc(k), &RTwin{Level: k}, nil, map[string]any{"n": nil}}
}

func invOptionsEntries() []invEntry {
	op := func(o any) *ojg.Options { return o.(*ojg.Options) }
	return []invEntry{
		{"oj.JSON", func(o any, k int) string { return oj.JSON(invOptData(k), op(o)) }},
		{"sen.String", func(o any, k int) string { return sen.String(invOptData(k), op(o)) }},
		{"oj.Marshal", func(o any, k int) string { b, err := oj.Marshal(invOptData(k), op(o)); return string(b) + errText(err) }},
		{"pretty.JSON", func(o any, k int) string { return pretty.JSON(invOptData(k), op(o)) }},
		{"pretty.SEN", func(o any, k int) string { return pretty.SEN(invOptData(k), op(o)) }},
		{"alt.Decompose", func(o any, k int) string { return Render(alt.Decompose(invOptData(k), op(o))) }},
		{"alt.Alter", func(o any, k int) string { return Render(alt.Alter(invOptData(k), op(o))) }},
		{"alt.Dup", func(o any, k int) string { return Render(alt.Dup(invOptData(k), op(o))) }},
		{"oj.Write", func(o any, k int) string {
			var sb strings.Builder
			err := oj.Write(&sb, invOptData(k), op(o))
			return sb.String() + errText(err)
		}},
		{"sen.Write", func(o any, k int) string {
			var sb strings.Builder
			err := sen.Write(&sb, invOptData(k), op(o))
			return sb.String() + errText(err)
		}},
	}
}

func invConverter() any {
	c := &ojg.Converter{
		Int:    append([]func(int64) (any, bool){func(v int64) (any, bool) { return v, false }}, ojg.TimeNanoConverter.Int...),
		String: append([]func(string) (any, bool){}, ojg.TimeRFC3339Converter.String...),
		Map:    append([]func(map[string]any) (any, bool){}, ojg.MongoConverter.Map...),
		Array: []func([]any) (any, bool){func(a []any) (any, bool) {
			if len(a) == 2 && a[0] == "pair" {
				return map[string]any{"pair": a[1]}, true
			}
			return a, false
		}},
	}
	return c
}

func invConverterEntries() []invEntry {
	data := func(k int) any {
		return map[string]any{"t": fmt.Sprintf("2021-03-0%dT10:11:12Z", k%9+1), "d": "2021-03-05", "n": map[string]any{"$numberLong": fmt.Sprint(k)},
			"p": []any{"pair", int64(k)}, "ns": int64(946684800000000000) + int64(k), "l": []any{int64(k), "x", []any{"pair", "y"}}}
	}
	return []invEntry{
		{"Convert", func(o any, k int) string { return Render(o.(*ojg.Converter).Convert(data(k))) }},
		{"Convert/scalar", func(o any, k int) string {
			return Render(o.(*ojg.Converter).Convert(fmt.Sprintf("2022-01-0%dT00:00:00Z", k%9+1)))
		}},
		{"Convert/list", func(o any, k int) string { return Render(o.(*ojg.Converter).Convert([]any{data(k), data(k + 1)})) }},
	}
}

// Identity lists the addresses of everything reachable from a shared object that a write could REPLACE —
// pointers, maps, slices (data pointer, length, capacity) — by access path. Inside one process these are
// stable as long as nobody assigns them (Go's collector does not move heap objects), so a shared object
// whose identity list differs after a call was written even if every value in it is what it was
// (a cache re-filled with an equal map, an entry re-indexed). Type descriptors (package reflect) are left out.
func Identity(v any) string {
	var sb strings.Builder
	seen := map[uintptr]bool{}
	var walk func(v reflect.Value, path string, depth int)
	walk = func(v reflect.Value, path string, depth int) {
		if !v.IsValid() || depth > 24 {
			return
		}
		if pk := v.Type().PkgPath(); pk == "reflect" || pk == "regexp" || pk == "sync" || pk == "time" || strings.HasPrefix(pk, "internal/") || strings.HasPrefix(pk, "regexp/") {
			return
		}
		switch v.Kind() {
		case reflect.Ptr:
			if v.IsNil() {
				return
			}
			fmt.Fprintf(&sb, "%s=%x ", path, v.Pointer())
			if seen[v.Pointer()] {
				return
			}
			seen[v.Pointer()] = true
			walk(v.Elem(), path+"*", depth+1)
		case reflect.Interface:
			if !v.IsNil() {
				walk(v.Elem(), path, depth+1)
			}
		case reflect.Struct:
			for i := 0; i < v.NumField(); i++ {
				walk(v.Field(i), path+"."+v.Type().Field(i).Name, depth+1)
			}
		case reflect.Slice:
			if v.IsNil() {
				return
			}
			fmt.Fprintf(&sb, "%s=%x/%d/%d ", path, v.Pointer(), v.Len(), v.Cap())
			for i := 0; i < v.Len(); i++ {
				walk(v.Index(i), fmt.Sprintf("%s[%d]", path, i), depth+1)
			}
		case reflect.Array:
			for i := 0; i < v.Len(); i++ {
				walk(v.Index(i), fmt.Sprintf("%s[%d]", path, i), depth+1)
			}
		case reflect.Map:
			if v.IsNil() {
				return
			}
			fmt.Fprintf(&sb, "%s=%x ", path, v.Pointer())
			keyText := func(k reflect.Value) string {
				switch k.Kind() {
				case reflect.String:
					return k.String()
				case reflect.Int, reflect.Int8, reflect.Int16, reflect.Int32, reflect.Int64:
					return fmt.Sprint(k.Int())
				case reflect.Uint, reflect.Uint8, reflect.Uint16, reflect.Uint32, reflect.Uint64, reflect.Uintptr:
					return fmt.Sprint(k.Uint())
				}
				return "" // other key kinds: the map's own address is still compared
			}
			keys := v.MapKeys()
			sort.Slice(keys, func(i, j int) bool { return keyText(keys[i]) < keyText(keys[j]) })
			for _, k := range keys {
				if kt := keyText(k); kt != "" {
					walk(v.MapIndex(k), path+"["+kt+"]", depth+1)
				}
			}
		}
	}
	walk(reflect.ValueOf(v), "o", 0)
	return sb.String()
}

// invCovered: the exported methods of the shared jp types that the entry points above go through. The path
// builders of Expr (x.C("a").N(1) …: construction, `return append(x, frag)`) are not read-only entry points.
var invCovered = map[string][]string{
	"jp.Expr": {"Get", "First", "FirstFound", "Has", "Locate", "Walk", "GetNodes", "FirstNode", "Set", "SetOne", "MustSet", "MustSetOne",
		"Del", "DelOne", "MustDel", "MustDelOne", "Remove", "RemoveOne", "MustRemove", "MustRemoveOne", "Modify", "ModifyOne", "MustModify", "MustModifyOne",
		"String", "BracketString", "Append", "Normal"},
	"jp.Script": {"Match", "Eval", "String", "Append", "Inspect"},
	// Walk(rest, path, nodes, cb) is the fragment-level step of Expr.Walk: exercised through in-path.Walk
	"jp.Filter": {"Match", "Eval", "String", "Append", "Inspect", "Walk"},
}

var invBuilders = []string{"A", "At", "B", "C", "Child", "D", "Descent", "F", "Filter", "N", "Nth", "R", "Root", "S", "Slice", "U", "Union", "W", "Wildcard"}

// InventoryComplete compares the method sets of the shared jp types (reflection, so the tree under test decides)
// with the methods the inventory exercises: an exported method that is neither a path builder nor covered is
// an entry point nobody runs; a covered method that no longer exists is a stale table.
func InventoryComplete() []string {
	var out []string
	types := map[string]reflect.Type{"jp.Expr": reflect.TypeOf(jp.Expr{}), "jp.Script": reflect.TypeOf(&jp.Script{}), "jp.Filter": reflect.TypeOf(&jp.Filter{})}
	for name, t := range types {
		known := map[string]bool{}
		for _, m := range invCovered[name] {
			known[m] = true
			if _, ok := t.MethodByName(m); !ok {
				out = append(out, name+"."+m+" is listed as covered but is not a method of the type")
			}
		}
		if name == "jp.Expr" {
			for _, m := range invBuilders {
				known[m] = true
			}
		}
		for i := 0; i < t.NumMethod(); i++ {
			if m := t.Method(i).Name; !known[m] {
				out = append(out, name+"."+m+" is an exported method the shared-object inventory does not run")
			}
		}
	}
	sort.Strings(out)
	return out
}

// Inventory is the list of everything C08 lets callers share, with every read-only entry point.
func Inventory() []invObject {
	var inv []invObject
	for _, t := range InvExprTexts {
		t := t
		inv = append(inv, invObject{kind: "jp.Expr", name: t, mk: func() any { return jp.MustParseString(t) }, entries: invExprEntries()})
	}
	// the same paths built by hand from fragments (other capacity than the parser's slices)
	inv = append(inv, invObject{kind: "jp.Expr", name: "built:$.items[?(@.v == $.want)].name", mk: func() any {
		return jp.R().C("items").F(jp.Eq(jp.Get(jp.A().C("v")), jp.Get(jp.R().C("want")))).C("name")
	}, entries: invExprEntries()})
	for _, t := range InvScriptTexts {
		t := t
		inv = append(inv, invObject{kind: "jp.Script", name: t, mk: func() any { return jp.MustNewScript(t) }, entries: invScriptEntries()})
	}
	for _, t := range []string{"[?(@.v == $.want)]", "[?(@.sub[?(@.x == $.want)].y > 20)]", "[?(@.v > 1)]"} {
		t := t
		inv = append(inv, invObject{kind: "jp.Filter", name: t, mk: func() any { return jp.MustNewFilter(t) }, entries: invFilterEntries()})
	}
	inv = append(inv, invObject{kind: "asm.Plan", name: "plan", mk: invPlan, entries: invPlanEntries(),
		print: func(o any) string { return planPrint(o, false) }, norm: func(o any) string { return planPrint(o, true) }, knownID: PlanLazyCompileID})
	inv = append(inv, invObject{kind: "alt.Recomposer", name: "twins+board", mk: invRecomposer, entries: invRecomposerEntries()})
	inv = append(inv, invObject{kind: "ojg.Options", name: "go+sort+timemap", mk: invOptions, entries: invOptionsEntries()})
	inv = append(inv, invObject{kind: "ojg.Converter", name: "time+mongo+pair", mk: invConverter, entries: invConverterEntries()})
	return inv
}

func invPerm(r *lib.Rng, n int) []int {
	p := make([]int, n)
	for i := range p {
		p[i] = i
	}
	for i := n - 1; i > 0; i-- {
		j := r.Intn(i + 1)
		p[i], p[j] = p[j], p[i]
	}
	return p
}

// SharedInventory is the deterministic half: for every object and every ORDERED pair of entry points
// (e1, e2) — one goroutine, nothing concurrent — caller 1 uses e1 on its data, caller 2 then uses e2 on
// other data through the same object: caller 2 must get what e2 returns on an object nobody has used,
// and the object must still be what it was. Every pair, so also Locate/Walk-then-Get and both orders.
func (run *Run) SharedInventory(emit func(lib.Finding)) int {
	n := 0
	for _, gap := range InventoryComplete() {
		emit(lib.Finding{Kind: "disagreement", Class: "inventory-incomplete", What: "the shared-object inventory no longer matches the method sets of the tree under test: " + gap,
			Replay: map[string]any{"scenario": "shared-inventory", "gap": gap}})
	}
	for _, ob := range Inventory() {
		reported := map[string]bool{}
		alone := make([]string, len(ob.entries))
		for j, e := range ob.entries {
			fresh := ob.mk()
			e := e
			alone[j] = invGuard(func() string { return e.call(fresh, 2) })
		}
		for i, e1 := range ob.entries {
			for j, e2 := range ob.entries {
				n++
				run.Rep.Count("c08.inventory.pairs."+ob.kind, 1)
				shared := ob.mk()
				before := ob.fp(shared)
				idBefore := Identity(shared)
				nbefore := ""
				if ob.norm != nil {
					nbefore = ob.norm(shared)
				}
				e1, e2 := e1, e2
				_ = invGuard(func() string { return e1.call(shared, 1) })
				if (i+j)%2 == 1 {
					// every other pair: caller 0 has used e1 as well (a defect that needs two earlier calls)
					_ = invGuard(func() string { return e1.call(shared, 0) })
				}
				mid := ob.fp(shared)
				got := invGuard(func() string { return e2.call(shared, 2) })
				after := ob.fp(shared)
				if got != alone[j] && !reported["r"+e1.name] {
					reported["r"+e1.name] = true
					emit(lib.Finding{Kind: "violation", Class: "shared-object-result:" + ob.kind + ":" + e1.name + "-then-" + e2.name,
						What: fmt.Sprintf("%s %s shared by two callers: after caller 1's %s on ITS data, caller 2's %s on other data returns %s — on an object nobody else used (run alone) it returns %s",
							ob.kind, ob.name, e1.name, e2.name, clip(got), clip(alone[j])),
						Replay: map[string]any{"scenario": "shared-inventory", "kind": ob.kind, "object": ob.name, "first": e1.name, "then": e2.name,
							"data": "invDoc(1) then invDoc(2)", "got": got, "alone": alone[j]}})
				}
				if idAfter := Identity(shared); idAfter != idBefore && mid == before && after == before && !reported["i"+e1.name] && !reported["i"+e2.name] {
					reported["i"+e1.name], reported["i"+e2.name] = true, true
					emit(lib.Finding{Kind: "violation", Class: "shared-object-rewritten:" + ob.kind + ":" + e1.name + "-then-" + e2.name,
						What: fmt.Sprintf("%s %s: after %s and %s on caller-owned data every value in the shared object is what it was, but a pointer / map / slice inside it has been REPLACED (an unsynchronised write with an equal value): %s",
							ob.kind, ob.name, e1.name, e2.name, strings.Join(envDiff([]string{"identity\t" + idBefore}, []string{"identity\t" + idAfter}), "; ")),
						Replay: map[string]any{"scenario": "shared-inventory", "kind": ob.kind, "object": ob.name, "first": e1.name, "then": e2.name}})
				}
				if (mid != before || after != before) && !reported["w"+e1.name+e2.name] {
					who := e1.name
					if mid == before {
						who = e2.name
					}
					if reported["w"+who] {
						continue
					}
					reported["w"+who] = true
					reported["w"+e1.name+e2.name] = true
					kind, knownID := "violation", ""
					if ob.norm != nil && ob.norm(shared) == nbefore && lib.HasKnown(run.Known, ob.knownID) {
						kind, knownID = "known", ob.knownID
					}
					emit(lib.Finding{Kind: kind, KnownID: knownID, Class: "shared-object-written:" + ob.kind + ":" + who,
						What: fmt.Sprintf("%s %s: the shared object is not what it was after %s on caller-owned data (fingerprint incl. unexported fields): %s",
							ob.kind, ob.name, who, strings.Join(envDiff([]string{"object\t" + before}, []string{"object\t" + map[bool]string{true: after, false: mid}[mid == before]}), "; ")),
						Replay: map[string]any{"scenario": "shared-inventory", "kind": ob.kind, "object": ob.name, "first": e1.name, "then": e2.name}})
				}
			}
		}
	}
	run.Rep.Count("c08.inventory.objects", int64(len(Inventory())))
	return n
}

// InventoryStress is the concurrent half: every object shared by `goroutines` callers, each running
// EVERY entry point on its own data `reps` times, in an order of its own; results are compared with the
// same call on an object nobody else used. Under `go test -race` the detector watches the same run.
func InventoryStress(seed uint64, goroutines, reps int, want func(kind string) bool, known []lib.Known, emit func(lib.Finding)) int {
	n := 0
	for oi, ob := range Inventory() {
		if want != nil && !want(ob.kind) {
			continue
		}
		alone := make([][]string, goroutines)
		for g := 0; g < goroutines; g++ {
			alone[g] = make([]string, len(ob.entries))
			for j, e := range ob.entries {
				fresh := ob.mk()
				e, k := e, g+3
				alone[g][j] = invGuard(func() string { return e.call(fresh, k) })
			}
		}
		shared := ob.mk()
		before := ob.fp(shared)
		idBefore := Identity(shared)
		nbefore := ""
		if ob.norm != nil {
			nbefore = ob.norm(shared)
		}
		var mu sync.Mutex
		bad := map[string]string{}
		var wg sync.WaitGroup
		start := make(chan struct{})
		for g := 0; g < goroutines; g++ {
			wg.Add(1)
			go func(g int) {
				defer wg.Done()
				rng := lib.NewRng(seed*7919 + uint64(oi)*131 + uint64(g))
				<-start
				for rep := 0; rep < reps; rep++ {
					order := invPerm(rng, len(ob.entries))
					for _, j := range order {
						e, k := ob.entries[j], g+3
						got := invGuard(func() string { return e.call(shared, k) })
						if got != alone[g][j] {
							mu.Lock()
							if _, has := bad[e.name]; !has {
								bad[e.name] = fmt.Sprintf("goroutine %d: %s on its own data returns %s — alone %s", g, e.name, clip(got), clip(alone[g][j]))
							}
							mu.Unlock()
						}
					}
				}
			}(g)
		}
		close(start)
		wg.Wait()
		n += goroutines * reps * len(ob.entries)
		names := make([]string, 0, len(bad))
		for k := range bad {
			names = append(names, k)
		}
		sort.Strings(names)
		for _, k := range names {
			emit(lib.Finding{Kind: "violation", Class: "shared-object-concurrent:" + ob.kind + ":" + k,
				What:   fmt.Sprintf("%s %s shared by %d goroutines, each on its own data: %s", ob.kind, ob.name, goroutines, bad[k]),
				Replay: map[string]any{"scenario": "shared-inventory-stress", "kind": ob.kind, "object": ob.name, "entry": k, "seed": seed, "goroutines": goroutines, "reps": reps}})
		}
		if after := ob.fp(shared); after == before && Identity(shared) != idBefore {
			emit(lib.Finding{Kind: "violation", Class: "shared-object-rewritten:stress:" + ob.kind,
				What: fmt.Sprintf("%s %s: after %d goroutines used it on their own data every value in the shared object is what it was, but a pointer / map / slice inside it has been REPLACED: %s",
					ob.kind, ob.name, goroutines, strings.Join(envDiff([]string{"identity\t" + idBefore}, []string{"identity\t" + Identity(shared)}), "; ")),
				Replay: map[string]any{"scenario": "shared-inventory-stress", "kind": ob.kind, "object": ob.name, "seed": seed}})
		}
		if after := ob.fp(shared); after != before {
			kind, knownID := "violation", ""
			if ob.norm != nil && ob.norm(shared) == nbefore && lib.HasKnown(known, ob.knownID) {
				kind, knownID = "known", ob.knownID
			}
			emit(lib.Finding{Kind: kind, KnownID: knownID, Class: "shared-object-written:stress:" + ob.kind,
				What: fmt.Sprintf("%s %s: after %d goroutines used it on their own data the shared object is not what it was: %s", ob.kind, ob.name, goroutines,
					strings.Join(envDiff([]string{"object\t" + before}, []string{"object\t" + after}), "; ")),
				Replay: map[string]any{"scenario": "shared-inventory-stress", "kind": ob.kind, "object": ob.name, "seed": seed}})
		}
	}
	return n
}
