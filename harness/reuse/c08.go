package reuse

import (
	"encoding/json"
	"fmt"
	"io"
	"os"
	"os/exec"
	"path/filepath"
	"reflect"
	"regexp"
	"runtime"
	"strings"
	"sync"
	"time"

	"github.com/ohler55/ojg"
	"github.com/ohler55/ojg/alt"
	"github.com/ohler55/ojg/oj"
	"github.com/ohler55/ojg/sen"

	"verif/harness/lib"
)

// SCall is a call of a goroutine's list: on the pools / shared values ("pool"), on a private instance
// of the goroutine (a factory name), or a write of a value of a struct type the round created ("struct").
type SCall struct {
	Subject string `json:"subject"`
	Call    Call   `json:"call"`
}

// roundTypes are struct types no cache has seen: made per round, told apart by a tag.
type roundTypes struct {
	outer []reflect.Type
}

var roundCounter int
var roundMu sync.Mutex

func newRoundTypes(n int) *roundTypes {
	roundMu.Lock()
	roundCounter++
	k := roundCounter
	roundMu.Unlock()
	rt := &roundTypes{}
	for i := 0; i < n; i++ {
		tag := reflect.StructTag(fmt.Sprintf(`v:"r%d_%d"`, k, i))
		inner := reflect.StructOf([]reflect.StructField{
			{Name: "A", Type: reflect.TypeOf(""), Tag: tag},
			{Name: "B", Type: reflect.TypeOf(0)},
			{Name: "C", Type: reflect.TypeOf([]int{})},
		})
		outer := reflect.StructOf([]reflect.StructField{
			{Name: "In", Type: inner, Tag: tag},
			{Name: "P", Type: reflect.PtrTo(inner)},
			{Name: "L", Type: reflect.SliceOf(inner)},
			{Name: "N", Type: reflect.TypeOf(0), Tag: `json:"n,omitempty"`},
			{Name: "S", Type: reflect.TypeOf("")},
		})
		rt.outer = append(rt.outer, outer)
	}
	return rt
}

func (rt *roundTypes) value(c *Call) any {
	t := rt.outer[c.Path%len(rt.outer)]
	v := reflect.New(t).Elem()
	v.Field(0).Field(0).SetString(c.Data.S)
	v.Field(0).Field(1).SetInt(c.Data.I)
	if c.Data.B {
		p := reflect.New(t.Field(0).Type)
		p.Elem().Field(1).SetInt(c.Val)
		v.Field(1).Set(p)
		l := reflect.MakeSlice(t.Field(2).Type, 2, 2)
		l.Index(1).Field(0).SetString("l")
		v.Field(2).Set(l)
	}
	v.Field(3).SetInt(c.Val % 3)
	v.Field(4).SetString(c.Data.S)
	return v.Addr().Interface()
}

// exec writes a value of a round type. OmitEmpty varies from call to call (with the call's Val): which
// goroutine caches which plan of the outer and the nested type first must not show in the text (the
// "run alone" clause; it did until fix 8169704, finding C07-struct-cache-omitempty). UseTags and Indent
// are fixed per type.
func (rt *roundTypes) exec(c *Call) (o Outcome) {
	opt := ojg.DefaultOptions
	opt.Sort = true
	ti := c.Path % len(rt.outer)
	opt.OmitEmpty = c.Val%2 == 1
	opt.UseTags = ti%3 == 0
	opt.Indent = (ti % 2) * 2
	var pan any
	func() {
		defer func() { pan = recover() }()
		v := rt.value(c)
		switch c.Op {
		case "struct.oj":
			out := oj.JSON(v, &opt)
			o.Text, o.Live = "S="+out, []any{out}
		case "struct.sen":
			out := sen.String(v, &opt)
			o.Text, o.Live = "S="+out, []any{out}
		case "struct.alt":
			o.Text = "V=" + Render(alt.Decompose(v, &opt))
		case "struct.marshal":
			b, err := oj.Marshal(v, &opt)
			o.Text, o.Live = "B="+string(b)+" E="+errText(err), []any{b}
		}
	}()
	o.Text += " P=" + panicText(pan)
	finishLive(&o)
	return
}

func genStructCall(r *lib.Rng) Call {
	return Call{Op: lib.Pick(r, []string{"struct.oj", "struct.oj", "struct.sen", "struct.alt", "struct.marshal"}),
		Path: r.Intn(64), Val: int64(r.Intn(50)),
		Data: &DSpec{K: "x", S: lib.Pick(r, []string{"", "s"}), I: int64(r.Intn(3)), B: r.Bool()}}
}

// GenLists makes the call lists of one round.
func GenLists(seed uint64, round, goroutines, calls int, withSenBytes bool) [][]SCall {
	rng := lib.NewRng(seed*1000003 + uint64(round))
	privates := []string{"oj.Parser", "gen.Parser", "oj.Validator", "oj.Tokenizer", "oj.Writer", "sen.Writer", "pretty.Writer"}
	lists := make([][]SCall, goroutines)
	for g := range lists {
		r := rng.Fork(g)
		for i := 0; i < calls; i++ {
			switch k := r.Intn(10); {
			case k < 4:
				c := GenPoolCall(r)
				for !withSenBytes && c.Op == "sen.Bytes" {
					c = GenPoolCall(r)
				}
				lists[g] = append(lists[g], SCall{"pool", c})
			case k < 7:
				lists[g] = append(lists[g], SCall{"pool", GenSharedCall(r)})
			case k < 8:
				lists[g] = append(lists[g], SCall{"struct", genStructCall(r)})
			default:
				name := lib.Pick(r, privates)
				f, _ := factoryByName(name)
				lists[g] = append(lists[g], SCall{name, f.Gen(r)})
			}
		}
	}
	return lists
}

type gorun struct {
	texts   []string
	lives   []Outcome
	strange []string // returned values found modified, "<index>\t<message>"
}

// runList performs one goroutine's list.
// alone: the reference run. A struct write is then made on types NO cache has seen (new types per call,
// same text: they differ by a tag only), i.e. exactly "the call run alone": plans cached by other
// calls, in whatever order the goroutines got there, must not show.
func runList(list []SCall, env *Env, rt *roundTypes, alone bool) *gorun {
	res := &gorun{}
	pool := &poolSubject{env: env}
	priv := map[string]Subject{}
	type pending struct {
		idx  int
		live []any
		text string
	}
	var senBuf []pending // buffers sen.Bytes (pooled) returned, until this goroutine's next pooled sen call
	checkSen := func() {
		for _, p := range senBuf {
			if now := Render(p.live); now != p.text {
				res.strange = append(res.strange, fmt.Sprintf("%d\tthe buffer sen.Bytes returned was %s and is %s before this goroutine made another sen call", p.idx, clip(p.text), clip(now)))
			}
		}
		senBuf = nil
	}
	for i := range list {
		sc := &list[i]
		var o Outcome
		switch sc.Subject {
		case "pool":
			if strings.HasPrefix(sc.Call.Op, "sen.") && !strings.HasSuffix(sc.Call.Op, ".opt") {
				checkSen()
			}
			if alone {
				// "run alone": nothing another call did to a shared expression, script or options value can show
				pool.env = NewEnv()
			}
			o = pool.Exec(&sc.Call)
			if sc.Call.Op == "sen.Bytes" {
				senBuf = append(senBuf, pending{i, o.Live, o.LiveText})
			}
		case "struct":
			if alone {
				o = newRoundTypes(len(rt.outer)).exec(&sc.Call)
			} else {
				o = rt.exec(&sc.Call)
			}
		default:
			s := priv[sc.Subject]
			if s == nil {
				f, _ := factoryByName(sc.Subject)
				s = f.New()
				priv[sc.Subject] = s
			}
			o = s.Exec(&sc.Call)
		}
		res.texts = append(res.texts, o.Text)
		if o.Alias != "" {
			res.strange = append(res.strange, fmt.Sprintf("%d\tinput buffer aliased: %s", i, o.Alias))
		}
		if sc.Subject == "pool" || sc.Subject == "struct" {
			res.lives = append(res.lives, o)
		} else {
			res.lives = append(res.lives, Outcome{})
		}
		if i%8 == 7 {
			runtime.Gosched()
		}
	}
	checkSen()
	return res
}

// finalCheck re-inspects everything the package-level functions returned to this goroutine.
func (g *gorun) finalCheck(list []SCall) {
	for i := range g.lives {
		o := &g.lives[i]
		if o.Live == nil || o.Volatile {
			continue
		}
		if now := Render(o.Live); now != o.LiveText {
			g.strange = append(g.strange, fmt.Sprintf("%d\tthe value %s returned was %s and is %s at the end of the run", i, list[i].Call.Op, clip(o.LiveText), clip(now)))
		}
	}
}

// StressRound runs the lists concurrently, then one after the other, and compares.
func (run *Run) StressRound(seed uint64, round, goroutines, calls int, withSenBytes bool, emit func(lib.Finding)) int {
	lists := GenLists(seed, round, goroutines, calls, withSenBytes)
	env := NewEnv()
	envBefore := env.EnvPrint()
	rt := newRoundTypes(6)
	conc := make([]*gorun, goroutines)
	var wg sync.WaitGroup
	start := make(chan struct{})
	for g := 0; g < goroutines; g++ {
		wg.Add(1)
		go func(g int) {
			defer wg.Done()
			<-start
			conc[g] = runList(lists[g], env, rt, false)
		}(g)
	}
	close(start)
	wg.Wait()
	for g := range conc {
		conc[g].finalCheck(lists[g])
	}
	// what the goroutines shared must be as it was (fingerprints include unexported fields)
	for _, d := range envDiff(envBefore, env.EnvPrint()) {
		emit(lib.Finding{Kind: "violation", Class: "shared-value-written:stress:" + strings.Fields(d)[0],
			What:   "after the concurrent phase a value the goroutines shared is not what it was: " + d,
			Replay: map[string]any{"seed": seed, "round": round, "goroutines": goroutines, "calls": calls, "sen_bytes": withSenBytes}})
	}
	evals := 0
	for g := 0; g < goroutines; g++ {
		seq := runList(lists[g], env, rt, true)
		for i := range lists[g] {
			evals++
			sc := &lists[g][i]
			if normAddr(conc[g].texts[i]) != normAddr(seq.texts[i]) {
				fd := lib.Finding{Kind: "violation", Class: "concurrent-differs:" + sc.Subject + "." + sc.Call.Op,
					What: fmt.Sprintf("goroutine %d call %d (%s): concurrently %s — alone %s", g, i, sc.Call.Op, clip(conc[g].texts[i]), clip(seq.texts[i])),
					Replay: map[string]any{"seed": seed, "round": round, "goroutines": goroutines, "calls": calls, "sen_bytes": withSenBytes,
						"goroutine": g, "index": i, "list": lists[g]}}
				emit(fd)
			}
		}
		for _, s := range conc[g].strange {
			parts := strings.SplitN(s, "\t", 2)
			var idx int
			fmt.Sscanf(parts[0], "%d", &idx)
			sc := &lists[g][idx]
			fd := lib.Finding{Kind: "violation", Class: "modified-after-return:" + sc.Subject + "." + sc.Call.Op,
				What: fmt.Sprintf("goroutine %d call %d: %s", g, idx, parts[1]),
				Replay: map[string]any{"seed": seed, "round": round, "goroutines": goroutines, "calls": calls, "sen_bytes": withSenBytes,
					"goroutine": g, "index": idx, "list": lists[g]}}
			emit(fd)
		}
	}
	return evals
}

// Witness replays the schedule of the Lean theorem C08_alias_witness on the real code: goroutine A
// receives a buffer / string from a pooled API, goroutine B then calls the same API, A looks again.
// One P, so that B is handed the instance A just put back.
func (run *Run) Witness(emit func(lib.Finding)) int {
	old := runtime.GOMAXPROCS(1)
	defer runtime.GOMAXPROCS(old)
	type api struct {
		name string
		call func(data any) any
	}
	apis := []api{
		{"oj.JSON", func(d any) any { return oj.JSON(d) }},
		{"oj.Marshal", func(d any) any { b, _ := oj.Marshal(d); return b }},
		{"sen.String", func(d any) any { return sen.String(d) }},
		{"sen.Bytes", func(d any) any { return sen.Bytes(d) }},
	}
	n := 0
	for _, a := range apis {
		overwritten := ""
		for rep := 0; rep < 20 && overwritten == ""; rep++ {
			n++
			got := make(chan struct{})
			done := make(chan struct{})
			var res any
			var at string
			var wg sync.WaitGroup
			wg.Add(2)
			go func() { // A
				defer wg.Done()
				res = a.call([]any{"first caller", int64(rep), "aaaaaaaaaaaaaaaa"})
				at = Render(res)
				close(got)
				<-done
				if now := Render(res); now != at {
					overwritten = fmt.Sprintf("returned %s, after the other goroutine's call it is %s", clip(at), clip(now))
				}
			}()
			go func() { // B
				defer wg.Done()
				<-got
				for i := 0; i < 3; i++ {
					_ = a.call([]any{"SECOND CALLER", int64(i), "BBBBBBBBBBBBBBBBBBBBBBBB"})
				}
				close(done)
			}()
			wg.Wait()
		}
		run.Rep.Count("c08.witness."+a.name, 1)
		if overwritten != "" {
			fd := lib.Finding{Kind: "violation", Class: "overwritten-by-other-goroutine:" + a.name,
				What:   fmt.Sprintf("%s: a value returned to goroutine A was written by goroutine B's call of the same function: %s", a.name, overwritten),
				Replay: map[string]any{"scenario": "witness", "api": a.name, "schedule": "A: r := api(x); B: api(y) x3; A: inspect r", "gomaxprocs": 1}}
			emit(fd)
		}
	}
	return n
}

// ---- race detector sub-step ----------------------------------------------------------------------

var raceFrame = regexp.MustCompile(`github\.com/ohler55/ojg/([A-Za-z0-9_/]+)\.([A-Za-z0-9_().*]+)\(`)

// RaceStep builds this package's tests with -race against the tree under test in a scratch module and
// runs them. Tests: TestRaceStress (the stress round, sen.Bytes excluded), TestRaceSenBytes (only the
// pooled sen.Bytes), TestRaceColdCaches.
func (run *Run) RaceStep(emit func(lib.Finding)) {
	rep := run.Rep
	dir := filepath.Join(run.Verif, ".build", fmt.Sprintf("race_%s_%d", run.Prop, os.Getpid()))
	_ = os.RemoveAll(dir)
	defer os.RemoveAll(dir)
	copyDir := func(sub string) error {
		src := filepath.Join(run.Verif, "harness", sub)
		ents, err := os.ReadDir(src)
		if err != nil {
			return err
		}
		if err := os.MkdirAll(filepath.Join(dir, sub), 0o755); err != nil {
			return err
		}
		for _, e := range ents {
			if e.IsDir() || !strings.HasSuffix(e.Name(), ".go") {
				continue
			}
			in, err := os.Open(filepath.Join(src, e.Name()))
			if err != nil {
				return err
			}
			out, err := os.Create(filepath.Join(dir, sub, e.Name()))
			if err != nil {
				in.Close()
				return err
			}
			_, err = io.Copy(out, in)
			in.Close()
			out.Close()
			if err != nil {
				return err
			}
		}
		return nil
	}
	if err := copyDir("lib"); err != nil {
		run.raceUnavailable(emit, "the scratch module for go test -race could not be set up: "+err.Error())
		return
	}
	if err := copyDir("reuse"); err != nil {
		run.raceUnavailable(emit, "the scratch module for go test -race could not be set up: "+err.Error())
		return
	}
	if err := copyDir(filepath.Join("reuse", "twin")); err != nil {
		run.raceUnavailable(emit, "the scratch module for go test -race could not be set up: "+err.Error())
		return
	}
	gomod := "module verif/harness\n\ngo 1.23\n\nrequire github.com/ohler55/ojg v0.0.0\n\nreplace github.com/ohler55/ojg => " + run.Repo + "\n"
	if err := os.WriteFile(filepath.Join(dir, "go.mod"), []byte(gomod), 0o644); err != nil {
		run.raceUnavailable(emit, "the scratch module for go test -race could not be set up: "+err.Error())
		return
	}
	if gs, err := os.ReadFile(filepath.Join(run.Repo, "go.sum")); err == nil {
		_ = os.WriteFile(filepath.Join(dir, "go.sum"), gs, 0o644)
	}
	rounds := "6"
	if run.Tier == "thorough" {
		rounds = "60"
	}
	// checkptr (switched on by -race) stops the process at the first unsafe pointer computation of alt's
	// field accessors (alt.valInt …): off, so that the race detector gets to see the run
	runOnce := func() (string, error, float64) {
		cmd := exec.Command("go", "test", "-race", "-gcflags=all=-d=checkptr=0", "-count=1", "-v", "-run", "^TestRace", "./reuse")
		cmd.Dir = dir
		cmd.Env = append(os.Environ(), "GOFLAGS=-mod=mod", "GOPROXY=off", "GOSUMDB=off", "GOTOOLCHAIN=local", "CGO_ENABLED=1",
			"GORACE=halt_on_error=0", fmt.Sprintf("VERIF_RACE_SEED=%d", run.Seed), "VERIF_RACE_ROUNDS="+rounds)
		t0 := time.Now()
		outB, err := cmd.CombinedOutput()
		return string(outB), err, time.Since(t0).Seconds()
	}
	out, err, secs := runOnce()
	if !strings.Contains(out, "=== RUN") {
		if raceUnsupported(out) {
			// the toolchain says the detector does not exist for this platform: nothing to retry
			rep.Notes = append(rep.Notes, "race_step: unsupported — the Go toolchain reports that the race detector is not supported on this platform: "+lastLines(out, 300)+
				"; 'no data race' is then NOT decided by this run (stress comparison and deterministic oracles only)")
			rep.Count("c08.race_step.unsupported", 1)
			return
		}
		first := lastLines(out, 400)
		out, err, secs = runOnce() // once more: a busy machine, a build cache being written by another check
		if !strings.Contains(out, "=== RUN") {
			run.raceUnavailable(emit, fmt.Sprintf("go test -race did not build or start, twice (%v). First attempt: %s — second attempt: %s", err, first, lastLines(out, 400)))
			return
		}
		rep.Notes = append(rep.Notes, "race sub-step: the first go test -race attempt did not start ("+first+"); the second one ran")
	}
	nRounds := 6
	fmt.Sscanf(rounds, "%d", &nRounds)
	rep.Notes = append(rep.Notes, fmt.Sprintf("race_step: ran — go test -race in %.1fs: TestRaceStress %d rounds x 8 goroutines x 30 calls (%d ops), "+
		"TestRaceColdCaches %d rounds x 16 goroutines, TestRaceSenBytes 64 goroutines x 600 calls, TestRaceInventory %d objects x 8 goroutines x 2 passes over every entry point",
		secs, nRounds, nRounds*8*30, nRounds*3, len(Inventory())))
	rep.Count("c08.race_step.ran", 1)
	rep.Count("c08.race_step.stress_goroutines", 8)
	rep.Count("c08.race_step.stress_ops", int64(nRounds*8*30))
	rep.Count("c08.race_step.coldcache_ops", int64(nRounds*3*16))
	rep.Count("c08.race_step.pooled_bytes_ops", 64*600)
	// split by test
	segs := strings.Split(out, "=== RUN ")
	for _, seg := range segs[1:] {
		nl := strings.IndexByte(seg, '\n')
		if nl < 0 {
			continue
		}
		name := strings.TrimSpace(seg[:nl])
		body := seg[nl:]
		rep.Count("c08.race.tests", 1)
		races := strings.Count(body, "WARNING: DATA RACE")
		failed := strings.Contains(body, "--- FAIL: "+name)
		fatal := fatalRe.FindStringSubmatch(body)
		if races == 0 && !failed && fatal == nil {
			continue
		}
		class := "race:" + name
		what := ""
		if fatal != nil && races == 0 {
			class = "fatal:" + name + ":" + fatal[1]
			i := strings.Index(body, "fatal error:")
			blk := body[i:]
			var frames []string
			for _, m := range raceFrame.FindAllStringSubmatch(blk, 6) {
				frames = append(frames, m[1]+"."+m[2])
			}
			if len(blk) > 1500 {
				blk = blk[:1500]
			}
			what = fmt.Sprintf("Go runtime fatal error in %s: %s; first frames: %s\n%s", name, fatal[1], strings.Join(frames, " / "), blk)
		} else if races > 0 {
			// every report of the test, one finding per distinct first frame (a first report that is a known
			// deviation must not hide another race)
			blocks := strings.Split(body, "WARNING: DATA RACE")[1:]
			seenClass := map[string]bool{}
			for _, blk := range blocks {
				if j := strings.Index(blk, "=================="); j > 0 {
					blk = blk[:j]
				}
				stacks := blk
				if j := strings.Index(stacks, "\nGoroutine "); j > 0 {
					stacks = stacks[:j] // the two access stacks, without the creation stacks
				}
				var frames []string
				for _, m := range raceFrame.FindAllStringSubmatch(stacks, -1) {
					frames = append(frames, m[1]+"."+m[2])
				}
				// the two accesses: every WRITE must come from the lazy compile (asm.(*Fn).compile below
				// asm.evalValue: the slot of the shared list, or an object built there and published through it),
				// and both accesses must lie inside an executing plan
				lazyCompile, writes := true, 0
				for _, acc := range strings.Split(strings.TrimSpace(stacks), "\n\n") {
					head := acc
					if j := strings.IndexByte(head, '\n'); j > 0 {
						head = head[:j]
					}
					if !strings.Contains(acc, "asm.(*Plan).Execute(") {
						lazyCompile = false
					}
					if strings.Contains(head, "rite at") || strings.Contains(head, "rite of") {
						writes++
						if !strings.Contains(acc, "asm.(*Fn).compile(") || !strings.Contains(acc, "asm.evalValue(") {
							lazyCompile = false
						}
					}
				}
				if writes == 0 {
					lazyCompile = false
				}
				cls := "race:" + name
				if len(frames) > 0 {
					cls += ":" + frames[0]
				}
				if seenClass[cls] {
					continue
				}
				seenClass[cls] = true
				show := frames
				if len(show) > 6 {
					show = show[:6]
				}
				w := fmt.Sprintf("%d data race report(s) in %s; this one: %s", races, name, strings.Join(show, " / "))
				if len(blk) > 1500 {
					blk = blk[:1500]
				}
				fd := lib.Finding{Kind: "violation", Class: cls, What: w + "\n" + blk,
					Replay: map[string]any{"scenario": "race", "test": name, "seed": run.Seed, "rounds": rounds,
						"cmd": "cd <scratch module with harness/lib and harness/reuse> && CGO_ENABLED=1 go test -race -run '^" + name + "$' ./reuse"}}
				// finding C08-asm-plan-lazy-compile, decided per report (predicate above); any other race in an
				// executing plan is a violation
				if name == "TestRaceInventoryPlan" && lazyCompile && lib.HasKnown(run.Known, PlanLazyCompileID) {
					fd.Kind, fd.KnownID = "known", PlanLazyCompileID
				}
				emit(fd)
			}
			if !failed || len(seenClass) > 0 {
				continue
			}
		} else {
			i := strings.Index(body, "--- FAIL")
			if i < 0 {
				i = 0
			}
			// the test's own checks (a result that differs from the sequential run …)
			j := i - 1500
			if j < 0 {
				j = 0
			}
			what = "test failed without a race report: " + body[j:]
			if len(what) > 1800 {
				what = what[:1800]
			}
		}
		fd := lib.Finding{Kind: "violation", Class: class, What: what,
			Replay: map[string]any{"scenario": "race", "test": name, "seed": run.Seed, "rounds": rounds,
				"cmd": "cd <scratch module with harness/lib and harness/reuse> && CGO_ENABLED=1 go test -race -run '^" + name + "$' ./reuse"}}
		emit(fd)
	}
}

// raceUnsupported: the toolchain itself says there is no race detector for this platform.
func raceUnsupported(out string) bool {
	return strings.Contains(out, "-race is only supported on") || strings.Contains(out, "race detector not supported") ||
		strings.Contains(out, "-race is not supported on")
}

func lastLines(s string, n int) string {
	s = strings.TrimSpace(s)
	if len(s) > n {
		s = "…" + s[len(s)-n:]
	}
	return strings.Join(strings.Fields(s), " ")
}

// raceUnavailable: the race detector is the only thing in this check that decides "no data race occurs"; if it
// cannot run, the property is no longer shown to hold on this tree and the run must not be quiet.
func (run *Run) raceUnavailable(emit func(lib.Finding), why string) {
	run.Rep.Count("c08.race_step.unavailable", 1)
	run.Rep.Notes = append(run.Rep.Notes, "race_step: unavailable — "+why)
	emit(lib.Finding{Kind: "violation", Class: "race-step-unavailable",
		What: "C08 is no longer shown to hold on this tree (no failing input found): the Go race detector run, which is what decides 'no data race occurs' " +
			"(the Lean theorems are about an atomic-step model), could not be carried out: " + why,
		Replay: map[string]any{"scenario": "race", "no_failing_input_found": true,
			"cmd": "cd <scratch module with harness/lib and harness/reuse> && CGO_ENABLED=1 go test -race -gcflags=all=-d=checkptr=0 -run '^TestRace' ./reuse"}})
}

// RunC08Child is the in-process part of the run: the stress rounds. It runs
// in a child process of the harness: a Go runtime fatal error ("concurrent map read and map write",
// "all goroutines are asleep") cannot be recovered and would otherwise take the harness with it.
func (run *Run) RunC08Child() {
	rep := run.Rep
	emit := func(fd lib.Finding) { rep.Add(fd) }
	rounds, goroutines, calls := 100, 16, 40
	if run.Tier == "thorough" {
		rounds, calls = 1500, 60
	}
	for r := 0; r < rounds; r++ {
		ev := run.StressRound(run.Seed, r, goroutines, calls, true, emit)
		rep.AddEval(int64(ev), int64(ev))
		rep.Count("c08.stress.rounds", 1)
		rep.Count("c08.stress.calls", int64(ev))
	}
	// the shared-object inventory, all callers at once
	invReps := 4
	if run.Tier == "thorough" {
		invReps = 40
	}
	for r := 0; r < invReps; r++ {
		ev := InventoryStress(run.Seed+uint64(r)*977, goroutines, 3, nil, run.Known, emit)
		rep.AddEval(int64(ev), int64(ev))
		rep.Count("c08.inventory.stress_calls", int64(ev))
	}
	rep.Count("c08.stress.goroutines", int64(goroutines))
	rep.Notes = append(rep.Notes, fmt.Sprintf("stress: %d rounds x %d goroutines x %d calls, each compared with the same list run alone", rounds, goroutines, calls))
	rep.Sample(map[string]any{"round": 0, "goroutine": 0, "first_calls": GenLists(run.Seed, 0, goroutines, 3, true)[0]})
}

var fatalRe = regexp.MustCompile(`(?m)^fatal error: (.*)$`)

// RunC08 is the property run: the child with the stress, then the race detector sub-step.
func (run *Run) RunC08(self, knownPath string) {
	rep := run.Rep
	rep.Rule = "C08 (supporting evidence for the protocol proof): shared-object inventory — every read-only entry point of every kind of object callers may share (jp.Expr with $/@/nested filters, jp.Script, jp.Filter, asm.Plan, alt.Recomposer with pre-registered twins and composer functions, ojg.Options, ojg.Converter), every ordered pair on different caller-owned data vs the call on an unused object, and all at once; N goroutines run generated call lists (pooled package-level functions, shared jp.Expr / Script / options / struct types, " +
		"private instances) at the same time; every result is compared with the same list run alone, every value the package-level functions returned is re-inspected afterwards; " +
		"the two-goroutine schedule of the Lean witness is replayed per pooled API; the same scenarios run under the Go race detector"
	emit := func(fd lib.Finding) { rep.Add(fd) }
	// the deterministic parts run here: what they find must not be lost when the stress process dies
	n := run.RegistryClosure(emit)
	rep.AddEval(int64(n), int64(n))
	n = run.SharedUntouched(emit)
	rep.AddEval(int64(n), int64(n))
	n = run.SharedInventory(emit)
	rep.AddEval(int64(n), int64(n))
	n = run.OverlapAfterFailure(emit)
	rep.AddEval(int64(n), int64(n))
	n = run.Witness(emit)
	rep.AddEval(int64(n), 4)
	tmp := filepath.Join(run.Verif, ".build", fmt.Sprintf("c08_child_%d.json", os.Getpid()))
	_ = os.Remove(tmp)
	defer os.Remove(tmp)
	cmd := exec.Command(self, "-prop", "C08", "-tier", run.Tier, "-seed", fmt.Sprint(run.Seed), "-known", knownPath, "-out", tmp, "-child")
	cmd.Env = os.Environ()
	outB, err := cmd.CombinedOutput()
	var child struct {
		Evaluations   int64            `json:"evaluations"`
		Distinct      int64            `json:"distinct_nontrivial"`
		Samples       []any            `json:"samples"`
		Distribution  map[string]int64 `json:"distribution"`
		Findings      []lib.Finding    `json:"findings"`
		FindingsTotal map[string]int64 `json:"findings_total"`
		Notes         []string         `json:"notes"`
	}
	data, rerr := os.ReadFile(tmp)
	if err != nil || rerr != nil || json.Unmarshal(data, &child) != nil {
		out := string(outB)
		msg := "the stress process ended without a report"
		if m := fatalRe.FindStringSubmatch(out); m != nil {
			msg = "Go runtime fatal error: " + m[1]
		}
		var frames []string
		for _, m := range raceFrame.FindAllStringSubmatch(out, 8) {
			frames = append(frames, m[1]+"."+m[2])
		}
		class := "fatal:" + msg
		if len(frames) > 0 {
			class += ":" + frames[0]
		}
		if len(out) > 2500 {
			out = out[:2500]
		}
		emit(lib.Finding{Kind: "violation", Class: class,
			What:   fmt.Sprintf("%s while %d goroutines ran the generated call lists (%v); first frames: %s\n%s", msg, 16, err, strings.Join(frames, " / "), out),
			Replay: map[string]any{"scenario": "stress-process", "seed": run.Seed, "tier": run.Tier, "cmd": "h_reuse -prop C08 -child -seed <seed> -tier <tier>"}})
		rep.Count("c08.stress.process_died", 1)
	} else {
		rep.AddEval(child.Evaluations, child.Distinct)
		for k, v := range child.Distribution {
			rep.Count(k, v)
		}
		for _, sm := range child.Samples {
			rep.Sample(sm)
		}
		listed := map[string]int64{}
		for _, fd := range child.Findings {
			rep.Add(fd)
			listed[fd.Kind+":"+fd.Class]++
		}
		for k, v := range child.FindingsTotal {
			if extra := v - listed[k]; extra > 0 {
				rep.FindingsTotal[k] += extra
			}
		}
		rep.Notes = append(rep.Notes, child.Notes...)
	}
	run.RaceStep(emit)
}

// ReplayC08 re-runs a recorded case.
func (run *Run) ReplayC08(path string) error {
	data, err := os.ReadFile(path)
	if err != nil {
		return err
	}
	var fd struct {
		Replay struct {
			Scenario   string `json:"scenario"`
			Seed       uint64 `json:"seed"`
			Round      int    `json:"round"`
			Goroutines int    `json:"goroutines"`
			Calls      int    `json:"calls"`
			SenBytes   bool   `json:"sen_bytes"`
		} `json:"replay"`
	}
	if err := json.Unmarshal(data, &fd); err != nil {
		return err
	}
	emit := func(f lib.Finding) {
		run.Rep.Add(f)
		fmt.Printf("replay: %s %s: %s\n", f.Kind, f.Class, clip(f.What))
	}
	switch fd.Replay.Scenario {
	case "witness":
		run.Witness(emit)
	case "registry-closure":
		run.RegistryClosure(emit)
	case "shared-untouched":
		run.SharedUntouched(emit)
	case "shared-inventory":
		run.SharedInventory(emit)
	case "shared-inventory-stress":
		for k := 0; k < 20; k++ {
			InventoryStress(fd.Replay.Seed+uint64(k), 16, 3, nil, run.Known, emit)
		}
	case "overlap-after-failure":
		run.OverlapAfterFailure(emit)
	case "race":
		run.RaceStep(emit)
	default:
		// schedules are not reproducible: repeat the round a number of times
		for k := 0; k < 50; k++ {
			run.StressRound(fd.Replay.Seed, fd.Replay.Round, fd.Replay.Goroutines, fd.Replay.Calls, fd.Replay.SenBytes, emit)
		}
	}
	return nil
}
