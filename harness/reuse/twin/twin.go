// Package twin holds struct types whose SHORT names are those of types of package reuse: a Recomposer
// files a type under its short and under its full name, so two same-named types from two packages share
// the short-name slot (the later registration owns it) and the other one is found by its full name only.
package twin

// RTwin has the short name of reuse.RTwin and other fields.
type RTwin struct {
	Level int
	Note  string
}

// RAnyTwin has the short name of reuse.RAnyTwin.
type RAnyTwin struct {
	N int
}
