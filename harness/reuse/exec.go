package reuse

import (
	"bytes"
	"encoding/hex"
	"errors"
	"fmt"
	"io"
	"regexp"
	"strconv"
	"strings"

	"github.com/ohler55/ojg"
	"github.com/ohler55/ojg/alt"
	"github.com/ohler55/ojg/gen"
	"github.com/ohler55/ojg/jp"
	"github.com/ohler55/ojg/oj"
	"github.com/ohler55/ojg/pretty"
	"github.com/ohler55/ojg/sen"
)

// Outcome is what the caller of one call observes.
type Outcome struct {
	Text     string // everything observable at return time, canonical
	Live     []any  // values handed to the caller; they have to stay as they are …
	LiveText string // … namely this
	Volatile bool   // … unless documented otherwise (Reuse option, buffer-returning API)
	Alias    string // set when overwriting the caller's input buffer after the call changed Live
	Out      []byte // writers: the bytes returned or written by this call
	Stray    []byte // pretty.Writer: bytes this call offered to the io.Writer of an EARLIER Write call
	Left     int    // pretty.Writer: how many more bytes that earlier io.Writer accepted before this call (-1: any number, -2: there is none)
	Tried    []byte // pretty.Writer.Write: the bytes offered to the io.Writer
	Err      string // pretty.Writer: the error returned
}

// Subject is one instance (or the pools) that calls are made on.
type Subject interface {
	Exec(c *Call) Outcome
}

var errBoom = errors.New("reader failed on purpose")
var errSink = errors.New("writer failed on purpose")

func unhex(s string) []byte {
	b, err := hex.DecodeString(s)
	if err != nil {
		return []byte(s)
	}
	return b
}

func abortAt(c *Call, kind string) int {
	if strings.HasPrefix(c.Abort, kind+":") {
		n, err := strconv.Atoi(c.Abort[len(kind)+1:])
		if err == nil {
			return n
		}
	}
	return -1
}

type chunkReader struct {
	data   []byte
	pos    int
	sizes  []int
	k      int
	failAt int
}

func newChunkReader(data []byte, c *Call) *chunkReader {
	return &chunkReader{data: data, sizes: c.Chunks, failAt: abortAt(c, "readerr")}
}

func (r *chunkReader) Read(p []byte) (int, error) {
	if r.failAt >= 0 && r.pos >= r.failAt {
		return 0, errBoom
	}
	if r.pos >= len(r.data) {
		return 0, io.EOF
	}
	n := len(p)
	if len(r.sizes) > 0 {
		if s := r.sizes[r.k%len(r.sizes)]; s > 0 && s < n {
			n = s
		}
		r.k++
	}
	if rem := len(r.data) - r.pos; rem < n {
		n = rem
	}
	if r.failAt >= 0 && r.pos+n > r.failAt {
		n = r.failAt - r.pos
	}
	copy(p, r.data[r.pos:r.pos+n])
	r.pos += n
	return n, nil
}

type sink struct {
	buf       bytes.Buffer // what the writer accepted
	tried     bytes.Buffer // everything it was offered
	failAfter int
}

func newSink(c *Call) *sink { return &sink{failAfter: abortAt(c, "wfail")} }

func (s *sink) Write(p []byte) (int, error) {
	s.tried.Write(p)
	if s.failAfter >= 0 && s.buf.Len()+len(p) > s.failAfter {
		n := s.failAfter - s.buf.Len()
		if n < 0 {
			n = 0
		}
		s.buf.Write(p[:n])
		return n, errSink
	}
	return s.buf.Write(p)
}

func errText(err error) string {
	if err == nil {
		return "-"
	}
	return err.Error()
}

func panicText(p any) string {
	if p == nil {
		return "-"
	}
	if e, ok := p.(error); ok {
		return "panic " + e.Error()
	}
	return fmt.Sprintf("panic %v", p)
}

// finishLive fills LiveText and runs the alias probe: the caller's input buffer is overwritten after
// the call; nothing the caller received may change.
func finishLive(o *Outcome, bufs ...[]byte) {
	o.LiveText = Render(o.Live)
	for _, b := range bufs {
		for i := range b {
			b[i] = '#'
		}
	}
	if after := Render(o.Live); after != o.LiveText {
		o.Alias = fmt.Sprintf("before overwrite %s, after %s", clip(o.LiveText), clip(after))
		// keep the snapshot taken at return time
	}
}

var addrRe = regexp.MustCompile(`0x[0-9a-f]{6,16}`)

// normAddr hides pointer values (fmt's %v prints them for pointer fields): never compare addresses.
func normAddr(s string) string {
	if !strings.Contains(s, "0x") {
		return s
	}
	return addrRe.ReplaceAllString(s, "0xPTR")
}

func clip(s string) string {
	if len(s) > 300 {
		return s[:300] + "…"
	}
	return s
}

// ---- oj.Parser ---------------------------------------------------------------------------------

type ojParser struct{ p oj.Parser }

func (s *ojParser) Exec(c *Call) (o Outcome) {
	buf := append([]byte{}, unhex(c.In)...)
	var docs []any
	var docTexts []string
	var ch chan any
	var args []any
	panicAt := abortAt(c, "cbpanic")
	deliver := func(x any) {
		if panicAt >= 0 && len(docs) == panicAt {
			panic("callback failed on purpose")
		}
		docs = append(docs, x)
		docTexts = append(docTexts, Render(x))
	}
	for _, a := range c.Args {
		switch a {
		case "cb":
			args = append(args, func(x any) { deliver(x) })
		case "cbbool":
			args = append(args, func(x any) bool { deliver(x); return false })
		case "chan":
			ch = make(chan any, len(buf)+2)
			args = append(args, ch)
		case "conv:0":
			args = append(args, ojg.NumConvNone)
		case "conv:f":
			args = append(args, ojg.NumConvFloat64)
		case "conv:s":
			args = append(args, ojg.NumConvString)
		case "bad":
			args = append(args, 3)
		}
	}
	s.p.Reuse = c.Reuse
	var res any
	var err error
	var pan any
	func() {
		defer func() { pan = recover() }()
		switch c.Op {
		case "Parse":
			res, err = s.p.Parse(buf, args...)
		case "ParseReader":
			res, err = s.p.ParseReader(newChunkReader(buf, c), args...)
		case "Unmarshal":
			var out any
			err = s.p.Unmarshal(buf, &out)
			res = out
		}
	}()
	var chDocs []any
	if ch != nil {
	drain:
		for {
			select {
			case x := <-ch:
				chDocs = append(chDocs, x)
			default:
				break drain
			}
		}
	}
	o.Text = fmt.Sprintf("R=%s E=%s P=%s D=%v C=%s", Render(res), errText(err), panicText(pan), docTexts, Render(chDocs))
	o.Live = []any{res, docs, chDocs}
	o.Volatile = c.Reuse
	finishLive(&o, buf)
	return
}

// ---- gen.Parser --------------------------------------------------------------------------------

type genParser struct{ p gen.Parser }

func (s *genParser) Exec(c *Call) (o Outcome) {
	buf := append([]byte{}, unhex(c.In)...)
	var docs []any
	var docTexts []string
	var ch chan gen.Node
	var args []any
	panicAt := abortAt(c, "cbpanic")
	deliver := func(x gen.Node) {
		if panicAt >= 0 && len(docs) == panicAt {
			panic("callback failed on purpose")
		}
		docs = append(docs, x)
		docTexts = append(docTexts, Render(x))
	}
	for _, a := range c.Args {
		switch a {
		case "cb":
			args = append(args, func(x gen.Node) { deliver(x) })
		case "cbbool":
			args = append(args, func(x gen.Node) bool { deliver(x); return false })
		case "chan":
			ch = make(chan gen.Node, len(buf)+2)
			args = append(args, ch)
		case "bad":
			args = append(args, 3)
		}
	}
	s.p.Reuse = c.Reuse
	var res gen.Node
	var err error
	var pan any
	func() {
		defer func() { pan = recover() }()
		switch c.Op {
		case "Parse":
			res, err = s.p.Parse(buf, args...)
		case "ParseReader":
			res, err = s.p.ParseReader(newChunkReader(buf, c), args...)
		}
	}()
	var chDocs []any
	if ch != nil {
	drain:
		for {
			select {
			case x := <-ch:
				chDocs = append(chDocs, x)
			default:
				break drain
			}
		}
	}
	o.Text = fmt.Sprintf("R=%s E=%s P=%s D=%v C=%s", Render(res), errText(err), panicText(pan), docTexts, Render(chDocs))
	o.Live = []any{res, docs, chDocs}
	o.Volatile = c.Reuse
	finishLive(&o, buf)
	return
}

// ---- oj.Validator ------------------------------------------------------------------------------

type ojValidator struct{ v oj.Validator }

func (s *ojValidator) Exec(c *Call) (o Outcome) {
	buf := append([]byte{}, unhex(c.In)...)
	s.v.OnlyOne = c.OnlyOne
	var err error
	var pan any
	func() {
		defer func() { pan = recover() }()
		switch c.Op {
		case "Validate":
			err = s.v.Validate(buf)
		case "ValidateReader":
			err = s.v.ValidateReader(newChunkReader(buf, c))
		}
	}()
	o.Text = fmt.Sprintf("E=%s P=%s", errText(err), panicText(pan))
	finishLive(&o, buf)
	return
}

// ---- oj.Tokenizer ------------------------------------------------------------------------------

type recHandler struct {
	trace  strings.Builder
	live   []any
	n      int
	failAt int
}

func (h *recHandler) tok(s string) {
	if h.failAt >= 0 && h.n == h.failAt {
		panic("handler failed on purpose")
	}
	h.n++
	h.trace.WriteString(s)
	h.trace.WriteByte(' ')
}
func (h *recHandler) Null()           { h.tok("null") }
func (h *recHandler) Bool(b bool)     { h.tok(fmt.Sprintf("b:%v", b)) }
func (h *recHandler) Int(i int64)     { h.tok(fmt.Sprintf("i:%d", i)) }
func (h *recHandler) Float(f float64) { h.tok(Render(f)) }
func (h *recHandler) Number(s string) { h.live = append(h.live, s); h.tok(fmt.Sprintf("n:%q", s)) }
func (h *recHandler) String(s string) { h.live = append(h.live, s); h.tok(fmt.Sprintf("s:%q", s)) }
func (h *recHandler) ObjectStart()    { h.tok("{") }
func (h *recHandler) ObjectEnd()      { h.tok("}") }
func (h *recHandler) Key(s string)    { h.live = append(h.live, s); h.tok(fmt.Sprintf("k:%q", s)) }
func (h *recHandler) ArrayStart()     { h.tok("[") }
func (h *recHandler) ArrayEnd()       { h.tok("]") }

type ojTokenizer struct{ t oj.Tokenizer }

func (s *ojTokenizer) Exec(c *Call) (o Outcome) {
	buf := append([]byte{}, unhex(c.In)...)
	s.t.OnlyOne = c.OnlyOne
	h := &recHandler{failAt: abortAt(c, "tokpanic")}
	var err error
	var pan any
	func() {
		defer func() { pan = recover() }()
		switch c.Op {
		case "Parse":
			err = s.t.Parse(buf, h)
		case "Load":
			err = s.t.Load(newChunkReader(buf, c), h)
		}
	}()
	o.Text = fmt.Sprintf("T=%s E=%s P=%s", h.trace.String(), errText(err), panicText(pan))
	o.Live = h.live
	finishLive(&o, buf)
	return
}

// ---- writers -----------------------------------------------------------------------------------

type ojWriter struct {
	w oj.Writer
}

func (s *ojWriter) Exec(c *Call) (o Outcome) {
	s.w.Options = c.Opt.Options()
	data := c.Data.Build()
	var pan any
	func() {
		defer func() { pan = recover() }()
		switch c.Op {
		case "JSON":
			out := s.w.JSON(data)
			o.Out = []byte(out)
			o.Text = "S=" + out
			o.Live = []any{out}
		case "MustJSON":
			b := s.w.MustJSON(data)
			o.Out = append([]byte{}, b...)
			o.Text = "B=" + string(b)
			o.Live = []any{b}
			o.Volatile = true // "The returned buffer is the Writer buffer and is reused on the next call to write."
		case "Write":
			sk := newSink(c)
			err := s.w.Write(sk, data)
			o.Out = sk.buf.Bytes()
			o.Text = "W=" + sk.buf.String() + " E=" + errText(err)
		case "MustWrite":
			sk := newSink(c)
			defer func() { o.Out = sk.buf.Bytes(); o.Text = "W=" + sk.buf.String() }()
			s.w.MustWrite(sk, data)
		case "pkg.JSON":
			out := oj.JSON(data, &s.w)
			o.Out = []byte(out)
			o.Text = "S=" + out
			o.Live = []any{out}
		case "pkg.Marshal":
			b, err := oj.Marshal(data, &s.w)
			o.Out = append([]byte{}, b...)
			o.Text = "B=" + string(b) + " E=" + errText(err)
			o.Live = []any{b}
		case "pkg.Write":
			sk := newSink(c)
			err := oj.Write(sk, data, &s.w)
			o.Out = sk.buf.Bytes()
			o.Text = "W=" + sk.buf.String() + " E=" + errText(err)
		}
	}()
	o.Text += " P=" + panicText(pan)
	finishLive(&o)
	return
}

type senWriter struct {
	w sen.Writer
}

func (s *senWriter) Exec(c *Call) (o Outcome) {
	s.w.Options = c.Opt.Options()
	data := c.Data.Build()
	var pan any
	func() {
		defer func() { pan = recover() }()
		switch c.Op {
		case "SEN":
			out := s.w.SEN(data)
			o.Out = []byte(out)
			o.Text = "S=" + out
			o.Live = []any{out}
		case "MustSEN":
			b := s.w.MustSEN(data)
			o.Out = append([]byte{}, b...)
			o.Text = "B=" + string(b)
			o.Live = []any{b}
			o.Volatile = true
		case "Write":
			sk := newSink(c)
			err := s.w.Write(sk, data)
			o.Out = sk.buf.Bytes()
			o.Text = "W=" + sk.buf.String() + " E=" + errText(err)
		case "MustWrite":
			sk := newSink(c)
			defer func() { o.Out = sk.buf.Bytes(); o.Text = "W=" + sk.buf.String() }()
			s.w.MustWrite(sk, data)
		case "pkg.String":
			out := sen.String(data, &s.w)
			o.Out = []byte(out)
			o.Text = "S=" + out
			o.Live = []any{out}
		case "pkg.Bytes":
			b := sen.Bytes(data, &s.w)
			o.Out = append([]byte{}, b...)
			o.Text = "B=" + string(b)
			o.Live = []any{b}
			o.Volatile = true // documented for a caller's Writer
		case "pkg.Write":
			sk := newSink(c)
			err := sen.Write(sk, data, &s.w)
			o.Out = sk.buf.Bytes()
			o.Text = "W=" + sk.buf.String() + " E=" + errText(err)
		}
	}()
	o.Text += " P=" + panicText(pan)
	finishLive(&o)
	return
}

type prettyWriter struct {
	w        pretty.Writer
	lastSink *sink
}

func (s *prettyWriter) Exec(c *Call) (o Outcome) {
	s.w.Options = c.Opt.Options()
	if c.Opt != nil {
		s.w.Width, s.w.MaxDepth, s.w.Align, s.w.SEN = c.Opt.Width, c.Opt.MaxDepth, c.Opt.Align, c.Opt.SEN
	} else {
		s.w.Width, s.w.MaxDepth, s.w.Align, s.w.SEN = 80, 3, false, false
	}
	data := c.Data.Build()
	before := 0
	o.Left = -2
	if s.lastSink != nil {
		before = s.lastSink.tried.Len()
		o.Left = -1
		if s.lastSink.failAfter >= 0 {
			o.Left = s.lastSink.failAfter - s.lastSink.buf.Len()
			if o.Left < 0 {
				o.Left = 0
			}
		}
	}
	var pan any
	func() {
		defer func() { pan = recover() }()
		switch c.Op {
		case "Encode":
			b := s.w.Encode(data)
			o.Out = append([]byte{}, b...)
			o.Text = "B=" + string(b)
			o.Live = []any{b}
			o.Volatile = true
		case "Marshal":
			b, err := s.w.Marshal(data)
			o.Out = append([]byte{}, b...)
			o.Err = errText(err)
			o.Text = "B=" + string(b) + " E=" + errText(err)
			o.Live = []any{b}
		case "Write":
			sk := newSink(c)
			err := s.w.Write(sk, data)
			o.Out = append([]byte{}, sk.buf.Bytes()...)
			o.Tried = append([]byte{}, sk.tried.Bytes()...)
			o.Err = errText(err)
			o.Text = "W=" + sk.buf.String() + " E=" + errText(err)
			s.lastSink = sk
			before = sk.tried.Len()
		}
	}()
	if s.lastSink != nil && s.lastSink.tried.Len() > before {
		o.Stray = append([]byte{}, s.lastSink.tried.Bytes()[before:]...)
	}
	o.Text += " P=" + panicText(pan)
	finishLive(&o)
	return
}

// ---- package-level functions (pooled instances) and their fresh-instance counterparts -------------

// Env is what goroutines share in the C08 runs.
type Env struct {
	Exprs   []jp.Expr
	Scripts []*jp.Script
	Opts    []*ojg.Options
	Rec     *alt.Recomposer
}

// ExprTexts are the shared paths (parsed once, used by all goroutines).
var ExprTexts = []string{
	"$.a", "$.a.b", "$..b", "$.l[0]", "$.l[-1]", "$.l[1:3]", "$.l[*]", "$['a','c']", "$.l[?(@.x > 1)]",
	"$.l[?(@.x == 2)].y", "$.*", "$.l[?(@.y)].x", "@.a.b", "$.o.p.q", "$.l[0,2]", "$..x",
	// filter operands that yield more than one value
	"$.l[?(@.vals[*] == 2)]", "$.l[?(@.vals[*] > 1)].x", "$.l[?(@.vals[0,1] == 3)].y", "$.l[?(@..n == 1)]",
}

// ScriptTexts are the shared scripts.
var ScriptTexts = []string{"(@.x > 1)", "(@.x == 2 || @.y == 'b')", "(@.y in ['a','b'])", "(@.x < 3 && @.x > 0)", "(length(@.y) == 1)",
	"(@.vals[*] == 2)", "(@.vals[*] < 3 && @.x > 0)", "(@..n == 1)"}

// NewEnv parses the shared expressions and registers the struct types with a recomposer.
func NewEnv() *Env {
	e := &Env{}
	for _, t := range ExprTexts {
		e.Exprs = append(e.Exprs, jp.MustParseString(t))
	}
	for _, t := range ScriptTexts {
		e.Scripts = append(e.Scripts, jp.MustNewScript(t))
	}
	o1 := ojg.DefaultOptions
	o1.Sort = true
	o2 := ojg.GoOptions
	o2.Sort = true
	o2.Indent = 2
	o3 := ojg.DefaultOptions
	o3.Sort = true
	o3.OmitNil = true
	o3.CreateKey = "^"
	// TimeMap with an empty CreateKey, and with the full type path: time values are written as maps
	o4 := ojg.DefaultOptions
	o4.Sort = true
	o4.TimeMap = true
	o5 := ojg.GoOptions
	o5.Sort = true
	o5.TimeMap = true
	o5.FullTypePath = true
	o5.CreateKey = "^"
	e.Opts = []*ojg.Options{&o1, &o2, &o3, &o4, &o5}
	// RBoard alone: its element types (array-of-struct included) come with it
	rec, err := alt.NewRecomposer("^", map[any]alt.RecomposeFunc{&RInner{}: nil, &RTagged{}: nil, &RBoard{}: nil, &RNest{}: nil})
	if err != nil {
		panic(err)
	}
	e.Rec = rec
	return e
}

type poolSubject struct {
	fresh bool // perform the call on a new instance instead of the package-level function
	env   *Env
}

func (s *poolSubject) Exec(c *Call) (o Outcome) {
	buf := append([]byte{}, unhex(c.In)...)
	var pan any
	func() {
		defer func() { pan = recover() }()
		switch c.Op {
		case "oj.Parse", "oj.MustParse", "oj.ParseString", "oj.Load":
			var docs []any
			var docTexts []string
			var args []any
			panicAt := abortAt(c, "cbpanic")
			for _, a := range c.Args {
				switch a {
				case "cb":
					args = append(args, func(x any) {
						if panicAt >= 0 && len(docs) == panicAt {
							panic("callback failed on purpose")
						}
						docs = append(docs, x)
						docTexts = append(docTexts, Render(x))
					})
				case "conv:f":
					args = append(args, ojg.NumConvFloat64)
				case "conv:s":
					args = append(args, ojg.NumConvString)
				case "bad":
					args = append(args, 3)
				}
			}
			var res any
			var err error
			defer func() {
				o.Text = fmt.Sprintf("R=%s E=%s D=%v", Render(res), errText(err), docTexts)
				o.Live = []any{res, docs}
			}()
			if s.fresh {
				p := &oj.Parser{}
				switch c.Op {
				case "oj.Load":
					res, err = p.ParseReader(newChunkReader(buf, c), args...)
				case "oj.ParseString":
					res, err = p.Parse([]byte(string(buf)), args...)
				case "oj.MustParse":
					r, e := p.Parse(buf, args...)
					if e != nil {
						panic(e)
					}
					res = r
				default:
					res, err = p.Parse(buf, args...)
				}
				return
			}
			switch c.Op {
			case "oj.Parse":
				res, err = oj.Parse(buf, args...)
			case "oj.MustParse":
				res = oj.MustParse(buf, args...)
			case "oj.ParseString":
				res, err = oj.ParseString(string(buf), args...)
			case "oj.Load":
				res, err = oj.Load(newChunkReader(buf, c), args...)
			}
		case "oj.JSON":
			data := c.Data.Build()
			var out string
			if s.fresh {
				out = (&oj.Writer{Options: oj.DefaultOptions}).JSON(data)
			} else {
				out = oj.JSON(data)
			}
			o.Out, o.Text, o.Live = []byte(out), "S="+out, []any{out}
		case "oj.Marshal":
			data := c.Data.Build()
			var b []byte
			var err error
			if s.fresh {
				opt := ojg.GoOptions
				b, err = oj.Marshal(data, &opt) // pickWriter builds a new strict Writer
			} else {
				b, err = oj.Marshal(data)
			}
			o.Out, o.Text, o.Live = append([]byte{}, b...), "B="+string(b)+" E="+errText(err), []any{b}
		case "oj.Write":
			data := c.Data.Build()
			sk := newSink(c)
			var err error
			if s.fresh {
				err = (&oj.Writer{Options: oj.DefaultOptions}).Write(sk, data)
			} else {
				err = oj.Write(sk, data)
			}
			o.Out, o.Text = sk.buf.Bytes(), "W="+sk.buf.String()+" E="+errText(err)
		case "sen.String":
			data := c.Data.Build()
			var out string
			if s.fresh {
				out = (&sen.Writer{Options: sen.DefaultOptions}).SEN(data)
			} else {
				out = sen.String(data)
			}
			o.Out, o.Text, o.Live = []byte(out), "S="+out, []any{out}
		case "sen.Bytes":
			data := c.Data.Build()
			var b []byte
			if s.fresh {
				b = (&sen.Writer{Options: sen.DefaultOptions}).MustSEN(data)
			} else {
				b = sen.Bytes(data)
			}
			o.Out, o.Text, o.Live = append([]byte{}, b...), "B="+string(b), []any{b}
			o.Volatile = true // "The returned buffer is the Writer buffer and is reused on the next call to write."
		case "sen.Write":
			data := c.Data.Build()
			sk := newSink(c)
			var err error
			if s.fresh {
				err = (&sen.Writer{Options: sen.DefaultOptions}).Write(sk, data)
			} else {
				err = sen.Write(sk, data)
			}
			o.Out, o.Text = sk.buf.Bytes(), "W="+sk.buf.String()+" E="+errText(err)

		// ---- not pooled, used by the C08 runs -------------------------------------------------
		case "oj.Validate":
			o.Text = "E=" + errText(oj.Validate(buf))
		case "oj.Tokenize":
			h := &recHandler{failAt: -1}
			err := oj.Tokenize(buf, h)
			o.Text = "T=" + h.trace.String() + " E=" + errText(err)
			o.Live = h.live
		case "pretty.JSON":
			out := pretty.JSON(c.Data.Build(), s.env.Opts[c.Path%len(s.env.Opts)], 40)
			o.Text, o.Live = "S="+out, []any{out}
		case "pretty.SEN":
			out := pretty.SEN(c.Data.Build(), s.env.Opts[c.Path%len(s.env.Opts)], 30)
			o.Text, o.Live = "S="+out, []any{out}
		case "oj.JSON.opt":
			out := oj.JSON(c.Data.Build(), s.env.Opts[c.Path%len(s.env.Opts)])
			o.Text, o.Live = "S="+out, []any{out}
		case "oj.Marshal.opt":
			b, err := oj.Marshal(c.Data.Build(), s.env.Opts[c.Path%len(s.env.Opts)])
			o.Text, o.Live = "B="+string(b)+" E="+errText(err), []any{b}
		case "oj.Write.opt":
			sk := newSink(c)
			err := oj.Write(sk, c.Data.Build(), s.env.Opts[c.Path%len(s.env.Opts)])
			o.Text = "W=" + sk.buf.String() + " E=" + errText(err)
		case "sen.Write.opt":
			sk := newSink(c)
			err := sen.Write(sk, c.Data.Build(), s.env.Opts[c.Path%len(s.env.Opts)])
			o.Text = "W=" + sk.buf.String() + " E=" + errText(err)
		case "sen.String.opt":
			out := sen.String(c.Data.Build(), s.env.Opts[c.Path%len(s.env.Opts)])
			o.Text, o.Live = "S="+out, []any{out}
		case "jp.Get":
			x := s.env.Exprs[c.Path%len(s.env.Exprs)]
			res := x.Get(c.Data.Build())
			o.Text = "G=" + renderSet(res)
		case "jp.First":
			x := s.env.Exprs[c.Path%len(s.env.Exprs)]
			o.Text = "F=" + Render(x.First(c.Data.Build()))
		case "jp.Has":
			x := s.env.Exprs[c.Path%len(s.env.Exprs)]
			o.Text = fmt.Sprintf("H=%v", x.Has(c.Data.Build()))
		case "jp.Set":
			x := s.env.Exprs[c.Path%len(s.env.Exprs)]
			data := c.Data.Build()
			err := x.Set(data, c.Val)
			o.Text = "D=" + Render(data) + " E=" + errText(err)
		case "jp.Del":
			x := s.env.Exprs[c.Path%len(s.env.Exprs)]
			data := c.Data.Build()
			err := x.Del(data)
			o.Text = "D=" + Render(data) + " E=" + errText(err)
		case "script.Match":
			sc := s.env.Scripts[c.Path%len(s.env.Scripts)]
			o.Text = fmt.Sprintf("M=%v", sc.Match(c.Data.Build()))
		case "script.Eval":
			sc := s.env.Scripts[c.Path%len(s.env.Scripts)]
			data := c.Data.Build()
			list, _ := data.([]any)
			if list == nil {
				list = []any{data}
			}
			o.Text = "V=" + Render(sc.Eval([]any{}, list))
		case "alt.Decompose":
			o.Text = "V=" + Render(alt.Decompose(c.Data.Build(), s.env.Opts[c.Path%len(s.env.Opts)]))
		case "alt.Generify":
			o.Text = "V=" + Render(alt.Generify(c.Data.Build()))
		case "rec.Recompose":
			var target RInner
			v, err := s.env.Rec.Recompose(map[string]any{"a": c.Data.S, "b": c.Data.I, "c": []any{c.Val}}, &target)
			o.Text = "V=" + Render(v) + " E=" + errText(err)
		case "rec.Board":
			// the Recomposer is new in every round: these are the FIRST Recompose calls into RBoard, made
			// by several goroutines at once
			var target RBoard
			v, err := s.env.Rec.Recompose(boardData(c.Val), &target)
			o.Text = "V=" + Render(v) + " E=" + errText(err)
		case "oj.ValidateReader":
			o.Text = "E=" + errText(oj.ValidateReader(newChunkReader(buf, c)))
		case "oj.TokenizeLoad":
			h := &recHandler{failAt: -1}
			err := oj.TokenizeLoad(newChunkReader(buf, c), h)
			o.Text = "T=" + h.trace.String() + " E=" + errText(err)
			o.Live = h.live
		case "sen.MustParse":
			v := sen.MustParse(buf)
			o.Text, o.Live = "R="+Render(v), []any{v}
		case "sen.ParseReader":
			v, err := sen.ParseReader(newChunkReader(buf, c))
			o.Text, o.Live = "R="+Render(v)+" E="+errText(err), []any{v}
		case "sen.MustParseReader":
			v := sen.MustParseReader(newChunkReader(buf, c))
			o.Text, o.Live = "R="+Render(v), []any{v}
		case "oj.MustLoad":
			v := oj.MustLoad(newChunkReader(buf, c))
			o.Text, o.Live = "R="+Render(v), []any{v}
		case "oj.MustParseString":
			v := oj.MustParseString(string(buf))
			o.Text, o.Live = "R="+Render(v), []any{v}
		case "sen.Parse":
			v, err := sen.Parse(buf)
			o.Text = "R=" + Render(v) + " E=" + errText(err)
			o.Live = []any{v}
		case "alt.Alter":
			o.Text = "V=" + Render(alt.Alter(c.Data.Build(), s.env.Opts[c.Path%len(s.env.Opts)]))
		case "alt.Dup":
			o.Text = "V=" + Render(alt.Dup(c.Data.Build(), s.env.Opts[c.Path%len(s.env.Opts)]))
		case "jp.Remove":
			x := s.env.Exprs[c.Path%len(s.env.Exprs)]
			data := c.Data.Build()
			res, err := x.Remove(data)
			o.Text = "D=" + Render(res) + " E=" + errText(err)
		case "rec.Nest":
			// struct types behind containers of containers: registered with RNest, not by these calls
			var target RNest
			v, err := s.env.Rec.Recompose(nestData(c.Val), &target)
			o.Text = "V=" + Render(v) + " E=" + errText(err)
		case "oj.Unmarshal":
			var target any
			err := oj.Unmarshal(buf, &target)
			o.Text = "V=" + Render(target) + " E=" + errText(err)
		default:
			o.Text = "unknown op " + c.Op
		}
	}()
	o.Text += " P=" + panicText(pan)
	finishLive(&o, buf)
	return
}

// renderSet renders the results of Get on a map-free path in order; the members of a wildcard or
// descent over a map come in map order, so they are sorted.
func renderSet(res []any) string {
	parts := make([]string, len(res))
	for i, r := range res {
		parts[i] = Render(r)
	}
	sortStrings(parts)
	return "[" + strings.Join(parts, " ") + "]"
}

func sortStrings(a []string) {
	for i := 1; i < len(a); i++ {
		for j := i; j > 0 && a[j] < a[j-1]; j-- {
			a[j], a[j-1] = a[j-1], a[j]
		}
	}
}
