package reuse

import (
	"fmt"
	"reflect"

	"github.com/ohler55/ojg/alt"

	"verif/harness/lib"
)

// Types for "a recomposer whose types were registered beforehand": RBoard reaches each of its element
// types through exactly one kind of field, and nothing else mentions them.
type RCellD struct{ V int } // a field of the struct type itself
type RCellP struct{ V int } // pointer
type RCellS struct{ V int } // slice
type RCellM struct{ V int } // map
type RCellA struct{ V int } // fixed-size array
type RLeafA struct{ V int } // array inside a nested struct
type RLeafS struct{ V int } // slice inside a nested struct

type RMid struct {
	Arr [2]RLeafA
	Sl  []RLeafS
}

type RBoard struct {
	Name string
	D    RCellD
	P    *RCellP
	S    []RCellS
	M    map[string]RCellM
	A    [2]RCellA
	Mid  *RMid
}

// Containers of containers, two and three levels, mixed kinds.
type RN1 struct{ V int }
type RN2 struct{ V int }
type RN3 struct{ V int }
type RN4 struct{ V int }
type RN5 struct{ V int }
type RN6 struct{ V int }
type RN7 struct{ V int }
type RN8 struct{ V int }
type RN9 struct{ V int }

type RNest struct {
	LL  [][]RN1
	ML  map[string][]RN2
	PA  *[2]RN3
	SP  []*RN4
	PP  **RN5
	LML []map[string][]RN6
	APS [2]*[]RN7
	MAP map[string][2]*RN8
	PPP ***RN9
}

type reach struct {
	via  string   // for the reader: the field(s) on the way
	path []string // container kinds from the field type down to the struct type (of the LAST struct step)
	typ  any
}

// boardReach / nestReach list the struct types reachable from RBoard / RNest.
var boardReach = []reach{
	{"self", nil, &RBoard{}}, {"plain", nil, &RCellD{}}, {"ptr", []string{"ptr"}, &RCellP{}}, {"slice", []string{"slice"}, &RCellS{}},
	{"map", []string{"map"}, &RCellM{}}, {"array", []string{"array"}, &RCellA{}}, {"ptr", []string{"ptr"}, &RMid{}},
	{"ptr/array", []string{"array"}, &RLeafA{}}, {"ptr/slice", []string{"slice"}, &RLeafS{}},
}

var nestReach = []reach{
	{"self", nil, &RNest{}},
	{"slice-slice", []string{"slice", "slice"}, &RN1{}},
	{"map-slice", []string{"map", "slice"}, &RN2{}},
	{"ptr-array", []string{"ptr", "array"}, &RN3{}},
	{"slice-ptr", []string{"slice", "ptr"}, &RN4{}},
	{"ptr-ptr", []string{"ptr", "ptr"}, &RN5{}},
	{"slice-map-slice", []string{"slice", "map", "slice"}, &RN6{}},
	{"array-ptr-slice", []string{"array", "ptr", "slice"}, &RN7{}},
	{"map-array-ptr", []string{"map", "array", "ptr"}, &RN8{}},
	{"ptr-ptr-ptr", []string{"ptr", "ptr", "ptr"}, &RN9{}},
}

func nestData(v int64) map[string]any {
	cell := func(x int64) any { return map[string]any{"v": x} }
	return map[string]any{
		"ll":  []any{[]any{cell(v), cell(v + 1)}, []any{cell(v + 2)}},
		"ml":  map[string]any{"k": []any{cell(v + 3)}},
		"pa":  []any{cell(v + 4), cell(v + 5)},
		"sp":  []any{cell(v + 6)},
		"lml": []any{map[string]any{"k": []any{cell(v + 7)}}},
	}
}

// singleStepReaches mirrors Reuse/Registry.lean `reaches … false`: the walk takes the element type of
// ONE container, the recursive registerComposer call dereferences one leading pointer, and must then
// be at the struct type.
func singleStepReaches(path []string) bool {
	if len(path) > 0 {
		path = path[1:]
	}
	return len(path) == 0 || (len(path) == 1 && path[0] == "ptr")
}

func boardData(v int64) map[string]any {
	cell := func(x int64) any { return map[string]any{"v": x} }
	return map[string]any{
		"name": fmt.Sprintf("b%d", v),
		"d":    cell(v), "p": cell(v + 1), "s": []any{cell(v + 2), cell(v + 3)},
		"m":   map[string]any{"k": cell(v + 4)},
		"a":   []any{cell(v + 5), cell(v + 6)},
		"mid": map[string]any{"arr": []any{cell(v + 7), cell(v + 8)}, "sl": []any{cell(v + 9)}},
	}
}

// RegistryClosure is the deterministic oracle for "registered beforehand": after RBoard and RNest ALONE have
// been registered (through each registration route), every struct type reachable through their fields must
// already be in the registry — else the first Recompose calls register it on the fly, an unsynchronised
// write to a map other goroutines read. Observed through the public API on a Recomposer of its own:
// a map carrying the create key and a type's name recomposes to that type iff the name is registered
// (a lookup that cannot register anything).
func (run *Run) RegistryClosure(emit func(lib.Finding)) int {
	routes := []struct {
		name string
		mk   func() (*alt.Recomposer, error)
	}{
		{"NewRecomposer", func() (*alt.Recomposer, error) {
			return alt.NewRecomposer("^", map[any]alt.RecomposeFunc{&RBoard{}: nil, &RNest{}: nil})
		}},
		{"RegisterComposer", func() (*alt.Recomposer, error) {
			r, err := alt.NewRecomposer("^", nil)
			if err != nil {
				return nil, err
			}
			if err = r.RegisterComposer(&RBoard{}, nil); err != nil {
				return nil, err
			}
			return r, r.RegisterComposer(&RNest{}, nil)
		}},
	}
	n := 0
	for _, rt := range routes {
		rec, err := rt.mk()
		if err != nil {
			emit(lib.Finding{Kind: "violation", Class: "registration-failed:" + rt.name, What: err.Error(),
				Replay: map[string]any{"scenario": "registry-closure", "route": rt.name}})
			continue
		}
		roots := []struct {
			name string
			list []reach
		}{{"RBoard", boardReach}, {"RNest", nestReach}}
		for _, root := range roots {
			for _, br := range root.list {
				n++
				want := reflect.TypeOf(br.typ)
				name := want.Elem().Name()
				var got any
				var pan any
				func() {
					defer func() { pan = recover() }()
					got, err = rec.Recompose(map[string]any{"^": name, "v": int64(7)})
				}()
				run.Rep.Count("c08.registry.probes", 1)
				if pan == nil && err == nil && got != nil && reflect.TypeOf(got) == want {
					continue
				}
				fd := lib.Finding{Kind: "violation", Class: "registration-not-closed:" + br.via + ":" + name,
					What: fmt.Sprintf("after %s of %s alone, the struct type %s (reached through %s) is not in the registry: "+
						"{\"^\":%q,\"v\":7} recomposes to %s (error %v, panic %v) instead of a %s — the first Recompose calls into a %s register it on the fly, "+
						"a write to r.composers that is not synchronised with the reads of other goroutines",
						rt.name, root.name, name, br.via, name, Render(got), err, pan, want, root.name),
					Replay: map[string]any{"scenario": "registry-closure", "route": rt.name, "root": root.name, "type": name, "via": br.via}}
				// finding C08-registry-nested-containers (fixed by a720b7c; the predicate only applies while the entry
				// is listed as known): the type sits behind two or more container levels that the
				// single step of the field walk (plus the one pointer registerComposer dereferences) does not get through
				if !singleStepReaches(br.path) && len(br.path) >= 2 && lib.HasKnown(run.Known, "C08-registry-nested-containers") {
					fd.Kind, fd.KnownID = "known", "C08-registry-nested-containers"
				}
				emit(fd)
			}
		}
		// and the recomposition itself is right (the types are usable, not only listed)
		n++
		var target RBoard
		v, err := rec.Recompose(boardData(10), &target)
		b, _ := v.(*RBoard)
		if err != nil || b == nil || b.A[1].V != 16 || b.Mid == nil || b.Mid.Arr[0].V != 17 || len(b.S) != 2 || b.M["k"].V != 14 || b.P == nil || b.P.V != 11 {
			emit(lib.Finding{Kind: "violation", Class: "registry-recompose:" + rt.name,
				What:   fmt.Sprintf("Recompose into RBoard after %s: %s, error %v", rt.name, Render(v), err),
				Replay: map[string]any{"scenario": "registry-closure", "route": rt.name}})
		}
	}
	return n
}
