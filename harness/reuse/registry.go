package reuse

import (
	"fmt"
	"reflect"

	"github.com/ohler55/ojg/alt"

	"verif/harness/lib"
)

// Types for "a recomposer whose types were registered beforehand": RBoard reaches each of its element
// types through exactly one kind of field, and nothing else mentions them.
type RCellD struct{ V int } // a field of the struct type itself
type RCellP struct{ V int } // pointer
type RCellS struct{ V int } // slice
type RCellM struct{ V int } // map
type RCellA struct{ V int } // fixed-size array
type RLeafA struct{ V int } // array inside a nested struct
type RLeafS struct{ V int } // slice inside a nested struct

type RMid struct {
	Arr [2]RLeafA
	Sl  []RLeafS
}

type RBoard struct {
	Name string
	D    RCellD
	P    *RCellP
	S    []RCellS
	M    map[string]RCellM
	A    [2]RCellA
	Mid  *RMid
}

// boardReach lists the struct types reachable from RBoard and how the first step gets there.
var boardReach = []struct {
	via string
	typ any
}{
	{"self", &RBoard{}}, {"plain", &RCellD{}}, {"ptr", &RCellP{}}, {"slice", &RCellS{}}, {"map", &RCellM{}},
	{"array", &RCellA{}}, {"ptr", &RMid{}}, {"ptr/array", &RLeafA{}}, {"ptr/slice", &RLeafS{}},
}

func boardData(v int64) map[string]any {
	cell := func(x int64) any { return map[string]any{"v": x} }
	return map[string]any{
		"name": fmt.Sprintf("b%d", v),
		"d":    cell(v), "p": cell(v + 1), "s": []any{cell(v + 2), cell(v + 3)},
		"m":   map[string]any{"k": cell(v + 4)},
		"a":   []any{cell(v + 5), cell(v + 6)},
		"mid": map[string]any{"arr": []any{cell(v + 7), cell(v + 8)}, "sl": []any{cell(v + 9)}},
	}
}

// RegistryClosure is the deterministic oracle for "registered beforehand": after RBoard ALONE has been
// registered (through each registration route), every struct type reachable through its fields must
// already be in the registry — else the first Recompose calls register it on the fly, an unsynchronised
// write to a map other goroutines read. Observed through the public API on a Recomposer of its own:
// a map carrying the create key and a type's name recomposes to that type iff the name is registered
// (a lookup that cannot register anything).
func (run *Run) RegistryClosure(emit func(lib.Finding)) int {
	routes := []struct {
		name string
		mk   func() (*alt.Recomposer, error)
	}{
		{"NewRecomposer", func() (*alt.Recomposer, error) {
			return alt.NewRecomposer("^", map[any]alt.RecomposeFunc{&RBoard{}: nil})
		}},
		{"RegisterComposer", func() (*alt.Recomposer, error) {
			r, err := alt.NewRecomposer("^", nil)
			if err != nil {
				return nil, err
			}
			return r, r.RegisterComposer(&RBoard{}, nil)
		}},
	}
	n := 0
	for _, rt := range routes {
		rec, err := rt.mk()
		if err != nil {
			emit(lib.Finding{Kind: "violation", Class: "registration-failed:" + rt.name, What: err.Error(),
				Replay: map[string]any{"scenario": "registry-closure", "route": rt.name}})
			continue
		}
		for _, br := range boardReach {
			n++
			want := reflect.TypeOf(br.typ)
			name := want.Elem().Name()
			var got any
			var pan any
			func() {
				defer func() { pan = recover() }()
				got, err = rec.Recompose(map[string]any{"^": name, "v": int64(7)})
			}()
			run.Rep.Count("c08.registry.probes", 1)
			if pan == nil && err == nil && got != nil && reflect.TypeOf(got) == want {
				continue
			}
			emit(lib.Finding{Kind: "violation", Class: "registration-not-closed:" + br.via + ":" + name,
				What: fmt.Sprintf("after %s of RBoard alone, the struct type %s (reached through a %s field) is not in the registry: "+
					"{\"^\":%q,\"v\":7} recomposes to %s (error %v, panic %v) instead of a %s — the first Recompose calls into an RBoard register it on the fly, "+
					"a write to r.composers that is not synchronised with the reads of other goroutines",
					rt.name, name, br.via, name, Render(got), err, pan, want),
				Replay: map[string]any{"scenario": "registry-closure", "route": rt.name, "type": name, "via": br.via}})
		}
		// and the recomposition itself is right (the types are usable, not only listed)
		n++
		var target RBoard
		v, err := rec.Recompose(boardData(10), &target)
		b, _ := v.(*RBoard)
		if err != nil || b == nil || b.A[1].V != 16 || b.Mid == nil || b.Mid.Arr[0].V != 17 || len(b.S) != 2 || b.M["k"].V != 14 || b.P == nil || b.P.V != 11 {
			emit(lib.Finding{Kind: "violation", Class: "registry-recompose:" + rt.name,
				What:   fmt.Sprintf("Recompose into RBoard after %s: %s, error %v", rt.name, Render(v), err),
				Replay: map[string]any{"scenario": "registry-closure", "route": rt.name}})
		}
	}
	return n
}
