package reuse

import (
	"os"
	"runtime"
	"strconv"
	"sync"
	"testing"

	"github.com/ohler55/ojg/sen"

	"verif/harness/lib"
)

// These tests are run by the C08 harness with `go test -race` (RaceStep); the race detector's
// reports, attributed to the test that was running, are what the harness reads.

func raceParams() (seed uint64, rounds int) {
	seed, rounds = 1, 2
	if s, err := strconv.ParseUint(os.Getenv("VERIF_RACE_SEED"), 10, 64); err == nil {
		seed = s
	}
	if n, err := strconv.Atoi(os.Getenv("VERIF_RACE_ROUNDS")); err == nil && n > 0 {
		rounds = n
	}
	return
}

// TestRaceStress: the stress round of the harness (pooled sen.Bytes left out: TestRaceSenBytes).
func TestRaceStress(t *testing.T) {
	seed, rounds := raceParams()
	run := &Run{Prop: "C08", Tier: "quick", Seed: seed, Rep: lib.NewReport("C08", "quick", seed)}
	for r := 0; r < rounds; r++ {
		run.StressRound(seed, 1000+r, 8, 30, false, func(fd lib.Finding) {
			t.Errorf("%s: %s", fd.Class, fd.What)
		})
	}
}

// TestRaceColdCaches: many goroutines write values of struct types no cache has seen, all at once.
func TestRaceColdCaches(t *testing.T) {
	seed, rounds := raceParams()
	for r := 0; r < rounds*3; r++ {
		rt := newRoundTypes(4)
		rng := lib.NewRng(seed + uint64(r))
		calls := make([]Call, 16)
		for i := range calls {
			calls[i] = genStructCall(rng)
		}
		texts := make([]string, len(calls))
		var wg sync.WaitGroup
		start := make(chan struct{})
		for i := range calls {
			wg.Add(1)
			go func(i int) {
				defer wg.Done()
				<-start
				texts[i] = rt.exec(&calls[i]).Text
			}(i)
		}
		close(start)
		wg.Wait()
		for i := range calls {
			if again := rt.exec(&calls[i]).Text; again != texts[i] {
				t.Errorf("cold-cache write %d: concurrently %s, afterwards %s", i, texts[i], again)
			}
		}
	}
}

// TestRaceSenBytes: the pooled sen.Bytes alone; the caller only READS what it was handed.
func TestRaceSenBytes(t *testing.T) {
	var wg sync.WaitGroup
	for g := 0; g < 64; g++ {
		wg.Add(1)
		go func(g int) {
			defer wg.Done()
			sum := 0
			for i := 0; i < 600; i++ {
				b := sen.Bytes([]any{int64(g), int64(i), "abcdefgh"})
				if i%4 == 0 {
					runtime.Gosched() // the caller holds b while other goroutines run on this P
				}
				for _, x := range b {
					sum += int(x)
				}
			}
			_ = sum
		}(g)
	}
	wg.Wait()
}

// TestRaceInventory: every object callers may share (asm.Plan: next test), every read-only entry point,
// 8 goroutines on their own data.
func TestRaceInventory(t *testing.T) {
	seed, _ := raceParams()
	InventoryStress(seed, 8, 2, func(kind string) bool { return kind != "asm.Plan" }, nil, func(fd lib.Finding) {
		t.Errorf("%s: %s", fd.Class, fd.What)
	})
}

// TestRaceInventoryPlan: one compiled asm.Plan executed by 8 goroutines on their own roots.
func TestRaceInventoryPlan(t *testing.T) {
	seed, _ := raceParams()
	InventoryStress(seed, 8, 2, func(kind string) bool { return kind == "asm.Plan" }, nil, func(fd lib.Finding) {
		if fd.Class != "shared-object-written:stress:asm.Plan" { // decided by the deterministic oracle (known: lazy compile)
			t.Errorf("%s: %s", fd.Class, fd.What)
		}
	})
}
